"""Scheduler rig, history parsing, reference recurrences and clause checkers shared by C12-C15."""
from .core import digest_of
from .net import (NetWorld, InTap, OutTap, Recorder, Script, start_injector, close, gen_times, GRID_RATES,
                  FLOAT_RATES, SIZES)
from onl.scheduler import SP, WFQ, VC, DRR, RR, WRR, Monitor

KINDS = ['SP', 'WFQ', 'VC', 'DRR', 'RR', 'WRR']
MAPPABLE = ('SP', 'WFQ', 'VC', 'DRR')


# ------------------------------------------------------------------------------------------- generation

def gen_sched_case(rng, tier, kind=None, mode=None, static=False, many_to_one=None, monitor=None):
    kind = kind or rng.choice(KINDS)
    mode = mode or rng.choice(['GRID', 'GRID', 'DISTINCT', 'DISTINCT', 'FLOAT'])
    nflows = rng.randint(1, 5)
    flows = list(range(nflows))
    n = rng.randint(1, 40 if tier == 'quick' else 80)
    rate = rng.choice(GRID_RATES) if mode != 'FLOAT' else rng.choice(FLOAT_RATES)
    sizes_pool = rng.choice([SIZES, [100], [500, 1000, 1500], [64, 1500], [1500, 3000, 4500], [200, 700, 1700, 2900]])
    case = {'engine': 'N', 'kind': kind, 'mode': mode, 'rate': rate, 'flows': flows}
    # flow -> class map (identity or many-to-one) for the schedulers that accept one
    if many_to_one is None:
        many_to_one = kind in MAPPABLE and nflows >= 2 and rng.random() < 0.3
    if many_to_one and kind in MAPPABLE and nflows >= 2:
        ncls = rng.randint(1, nflows - 1)
        fmap = [rng.randrange(ncls) for _ in flows]
        for c in range(ncls):               # every class used
            fmap[c % nflows] = c if rng.random() < 0.7 else fmap[c % nflows]
        if rng.random() < 0.4:
            # class ids are names of their own: none of them is also a flow id
            off = rng.choice([100, 1000])
            fmap = [c + off for c in fmap]
        case['fmap'] = fmap
        classes = sorted(set(fmap))
    else:
        case['fmap'] = None
        classes = flows
    if kind == 'SP':
        # SP's table is keyed by class like the tables of the other schedulers (one table serves any server of a
        # FairPacketSwitch); a flow's priority is the priority of its class
        case['table'] = [[c, rng.choice([1, 1, 2, 3, 5, 10, 0.5, 2.5])] for c in classes]
        rng.shuffle(case['table'])
    elif kind == 'WFQ' and rng.random() < 0.3:
        # fractional weights (shares that sum to at most 1) are as legal as integers
        case['table'] = [[c, rng.choice([0.5, 0.25, 0.125, 0.0625])] for c in classes]
    elif kind == 'DRR' and rng.random() < 0.25:
        case['table'] = [[c, rng.choice([1.5, 2.5, 1, 4, 0.5, 0.3, 0.7])] for c in classes]
    elif kind == 'DRR' and rng.random() < 0.2:
        # weights whose smallest one does not divide 1500*weight: quanta with a fractional part
        case['table'] = [[c, rng.choice([7, 8, 9, 11, 13, 19, 20])] for c in classes]
    elif kind in ('WFQ', 'DRR', 'WRR'):
        case['table'] = [[c, rng.choice([1, 1, 2, 3, 4])] for c in classes]
        if rng.random() < 0.5:
            rng.shuffle(case['table'])
    elif kind == 'VC':
        case['table'] = [[c, rng.choice([0.125, 0.25, 0.5, 1.0, 2.0]) if mode != 'FLOAT' else rng.choice([0.1, 0.3, 1.7])]
                         for c in classes]
    else:  # RR
        order = list(flows)
        if rng.random() < 0.5:
            rng.shuffle(order)
        case['table'] = [[f, 1] for f in order]
    if static:
        ts = [0.0] * n
        if mode == 'DISTINCT':
            mode = case['mode'] = 'GRID'
    else:
        ts = gen_times(rng, n, mode)
    sizes = [rng.choice(sizes_pool) for _ in range(n)]
    fl = [rng.choice(flows) for _ in range(n)]
    # heavy load variant: compress time so that backlogs build up
    scale = rng.choice([1, 1, 0.25, 4])
    if mode != 'DISTINCT':
        ts = [t * scale for t in ts]
    # arrivals exactly at predicted transmission ends (work-conserving server: same instants whatever the discipline)
    if mode == 'GRID' and not static and rng.random() < 0.6:
        dep = 0.0
        deps = []
        for t, s in sorted(zip(ts, sizes)):
            dep = max(t, dep) + s * 8.0 / rate
            deps.append(dep)
        for k in range(1, n):
            if rng.random() < 0.2:
                ts[k] = rng.choice(deps[:k])
    hop = rng.random() < 0.5
    if case['fmap'] is None and rng.random() < 0.15:
        # flow / class ids need not be integers
        names = ['gold', 'silver', 'bronze', 'lead', 'tin', 'zinc']
        m = dict((f, names[f % len(names)]) for f in flows)
        case['flows'] = flows = [m[f] for f in flows]
        case['table'] = [[m[c], v] for c, v in case['table']]
        fl = [m[f] for f in fl]
    elif case['fmap'] is None and rng.random() < 0.1:
        # 32-bit style flow ids (addresses)
        big = [17, 3232235777, 167772161, 2886729729, 4294967295, 65536]
        m = dict((f, big[f % len(big)]) for f in flows)
        case['flows'] = flows = [m[f] for f in flows]
        case['table'] = [[m[c], v] for c, v in case['table']]
        fl = [m[f] for f in fl]
    wl = sorted([[ts[k], fl[k], sizes[k], 0, None, rng.choice([0, 0, 1, 2, 3]) if hop else 0] for k in range(n)],
                key=lambda x: x[0])
    case['workload'] = wl
    if rng.random() < 0.3:
        # a second, independent scheduler of the same kind in the same simulation, with the same class ids and its own
        # traffic: its state must not leak into the one under observation
        ts2 = gen_times(rng, rng.randint(1, 25), 'GRID' if mode != 'FLOAT' else 'FLOAT')
        tab2 = [[c, rng.choice([1, 2, 3, 4]) if kind != 'VC' else rng.choice([0.125, 0.5, 2.0])] for c, _ in case['table']]
        case['shadow'] = {'rate': rng.choice(GRID_RATES), 'table': tab2,
                          'workload': [[t * scale if mode != 'DISTINCT' else t + 2.0 ** -21, rng.choice(flows),
                                        rng.choice(sizes_pool)] for t in ts2]}
    if rng.random() < 0.15:
        # the caller's table object served an earlier scheduler with other values and was then edited in place
        vals = [v for _c, v in case['table']]
        case['table0'] = [[c, rng.choice(vals + [1, 2, 3])] for c, _v in case['table']]
    if monitor is None:
        monitor = rng.random() < 0.25
    if monitor:
        case['monitor'] = {'included': rng.random() < 0.5,
                           'dist': [rng.choice([0.125, 0.25, 0.5, 1.0, 0.0625, 0.03125]) for _ in range(10)]}
    if rng.random() < 0.1:
        case['late_cfg'] = rng.choice([8, 12345, 1 << 22])
    if not static and rng.random() < 0.12:
        # the link is re-provisioned while the scheduler is idle: after everything of the first phase has left, the
        # public `rate` attribute is assigned another value and a second phase of traffic follows (same packet sizes)
        busy = sum(x[2] for x in wl) * 8.0 / rate
        at = float(int(max(x[0] for x in wl) + busy) + 2)
        rate2 = rng.choice([r for r in (GRID_RATES if mode != 'FLOAT' else FLOAT_RATES) if r != rate] or [rate * 2])
        ts2 = gen_times(rng, rng.randint(1, 15), mode)
        case['phase2'] = {'at': at, 'rate': rate2}
        wl2 = [[at + 1 + (t * scale if mode != 'DISTINCT' else t), rng.choice(flows), rng.choice(sorted(set(x[2] for x in wl))),
                0, None, 0] for t in ts2]
        case['workload'] = wl + sorted(wl2, key=lambda x: x[0])
    if mode != 'FLOAT' and rng.random() < 0.12:
        # a fast link (tens of Mbit/s to Tbit/s): the same scenario with the rate multiplied and every instant divided
        # by a power of two, which is exact in binary floating point; transmission times go down to nanoseconds
        c = 2.0 ** rng.choice([15, 20, 24, 27])
        case['rate'] = rate * int(c)
        for x in case['workload']:
            x[0] = x[0] / c
        if kind == 'VC':
            case['table'] = [[k, v / c] for k, v in case['table']]
            if case.get('table0'):
                case['table0'] = [[k, v / c] for k, v in case['table0']]
        if case.get('shadow'):
            case['shadow']['rate'] *= int(c)
            for x in case['shadow']['workload']:
                x[0] = x[0] / c
            if kind == 'VC':
                case['shadow']['table'] = [[k, v / c] for k, v in case['shadow']['table']]
        if case.get('monitor'):
            case['monitor']['dist'] = [v / c for v in case['monitor']['dist']]
        if case.get('phase2'):
            case['phase2'] = {'at': case['phase2']['at'] / c, 'rate': case['phase2']['rate'] * int(c)}
        case['fast_link'] = True
    if not static and mode == 'GRID' and not case.get('fast_link') and not case.get('phase2') and rng.random() < 1 / 60:
        # a long haul: thousands of packets in one busy period, offered a little (or a lot) faster than the line serves
        # them, so that a backlog stands for the whole run (counters, accumulated virtual time, deep queues)
        nlong = rng.choice([2600, 4200, 9300]) if kind != 'SP' else rng.choice([2600, 3400])
        size = 1024
        if rng.random() < 0.3:
            case['rate'] = rate = 8      # a very slow line: simulated (and virtual) time runs into the millions
        tx = size * 8.0 / rate * (10.5 / 11)     # mean transmission time (every eleventh packet is half size)
        step = tx * rng.choice([31 / 32.0, 0.75, 0.5])
        if nlong > 4200:
            step = tx * 31 / 32.0          # the longest hauls with a shallow backlog (the checks scan the backlog)
        case['workload'] = [[k * step, flows[(k * 7 + (k // 5)) % len(flows)], size if k % 11 else 512, 0, None, 0]
                            for k in range(nlong)]
        case.pop('shadow', None)
        case.pop('monitor', None)
        case.pop('late_cfg', None)
        case['long_haul'] = True
    if rng.random() < 0.2 and not case.get('long_haul'):
        # compared at the end with a bare twin (library elements only, no taps, nobody reading counters or holding
        # packets); sometimes with a real Port behind the scheduler, as fast as the scheduler, slower, or with a small buffer
        case['twin'] = True
        if rng.random() < 0.6:
            case['downstream'] = {'rate': rng.choice([case['rate'], case['rate'], 0, case['rate'] // 2 or 1, case['rate'] * 2]),
                                  'qlimit': rng.choice([None, None, 2, 3, 3000]), 'limit_bytes': False}
            if case['downstream']['qlimit'] == 3000:
                case['downstream']['limit_bytes'] = True
    if kind == 'VC' and mode == 'GRID' and not case.get('fast_link') and rng.random() < 0.12:
        # a long-running simulation (clock at 2**40, resolution 2**-12) with vticks below that resolution: `now + vtick`
        # is `now`, stamps of one class coincide and only the arrival order separates them
        case['t0'] = 2.0 ** 40
        case['table'] = [[c, v * 2.0 ** -16 if rng.random() < 0.7 else v] for c, v in case['table']]
        case['absorbed_vticks'] = True
    return case


# ------------------------------------------------------------------------------------------- execution

class Rig:
    pass


def build(w, case):
    env = w.env
    kind = case['kind']
    rate = case['rate']
    table = [tuple(x) for x in case.get('table', [])]
    fmap = case.get('fmap')
    if fmap is not None:
        def f2c(fid, fmap=fmap):
            return fmap[fid] if 0 <= fid < len(fmap) else fid
    else:
        def f2c(fid):
            return fid
    d = dict(table)
    if case.get('table0') and kind != 'RR':
        # the same dict object configured an earlier (idle) scheduler with other values, then was edited in place
        d0 = dict(tuple(x) for x in case['table0'])
        if set(d0) == set(d):
            real, d = d, d0
            one = dict(case)
            one.pop('table0')
            {'SP': lambda: SP(env, rate, d, flow2class=f2c), 'WFQ': lambda: WFQ(env, rate, d, flow2class=f2c),
             'VC': lambda: VC(env, rate, d, flow2class=f2c), 'DRR': lambda: DRR(env, rate, d, flow2class=f2c),
             'WRR': lambda: WRR(env, rate, d)}[kind]()
            d.clear()
            d.update(real)
    late = case.get('late_cfg')
    real_rate = rate
    if late:
        # configuration through the public attributes after construction (once the scheduler's process has started):
        # the line rate of every kind, and the weight table of WFQ edited in place
        rate = late
        if kind == 'WFQ':
            real_w = dict(d)
            for c in d:
                d[c] = 1
    if kind == 'SP':
        s = SP(env, rate, d, flow2class=f2c)
    elif kind == 'WFQ':
        s = WFQ(env, rate, d, flow2class=f2c)
    elif kind == 'VC':
        s = VC(env, rate, d, flow2class=f2c)
    elif kind == 'DRR':
        s = DRR(env, rate, d, flow2class=f2c)
    elif kind == 'RR':
        s = RR(env, rate, [x[0] for x in table])
    elif kind == 'WRR':
        s = WRR(env, rate, d)
    else:
        raise ValueError(kind)
    if late:
        def configure():
            s.rate = real_rate
            if kind == 'WFQ':
                for c, v in real_w.items():
                    s.weights[c] = v
            return
            yield
        env.process(configure())
    ph = case.get('phase2')
    if ph:
        def reprovision():
            yield env.timeout(ph['at'])
            s.rate = ph['rate']
            w.rec('RECONF', 's', ph['rate'], s.total_packets)
        env.process(reprovision())
    return s, f2c


def downstream(w, case, last):
    """Optionally a library Port between the element under test and the end of the branch (the same in the instrumented
    world and in its bare twin): elements that look at what they are connected to see a Port there, not a tap."""
    dn = case.get('downstream')
    if not dn:
        return last
    from onl.netdev import Port
    port = Port(w.env, dn.get('rate', 0), dn.get('qlimit'), bool(dn.get('limit_bytes')), 'dn')
    port.out = last
    return port


def bare_twin_view(case):
    """What the library sinks of the same scenario, built without any tap, have recorded at the end."""
    from .net import sink_view
    c2 = dict(case)
    for k in ('shadow', 'monitor'):
        c2.pop(k, None)
    r = run_sched(c2, bare=True)
    return sink_view(r.w), r.w


def twin_check(r, case, pid, stats):
    """Violations found by comparing the instrumented run r with its bare twin."""
    if not case.get('twin') or case.get('no_out'):
        return []
    from .net import sink_view, compare_sink_views
    stats['compared_with_bare_twin'] = 1
    if case.get('downstream'):
        stats['library_port_downstream'] = 1
    view_b, w2 = bare_twin_view(case)
    if w2.raised:
        return [(pid + '.T', 'the same scenario without taps (library elements only) raised %r' % (w2.raised[0],))]
    va = sink_view(r.w)
    d = compare_sink_views({'sink': va.get('sink', {})}, {'sink': view_b.get('sink', {})})
    if d is not None:
        return [(pid + '.T', 'the scenario runs differently when nobody watches the element (no taps, library sinks, no '
                 'counter read, no packet kept alive): ' + d)]
    return []


def run_sched(case, bare=False):
    t0 = case.get('t0', 0)
    w = NetWorld(t0, bare=bare)
    env = w.env
    s, f2c = build(w, case)
    flows = case.get('flows', [])

    def counters(elem, p):
        cur = elem.packet_in_service
        return (tuple((f, elem.size(f), elem.byte_size(f)) for f in flows), elem.total_packets,
                w.plabel.get(cur) if cur is not None and not isinstance(cur, tuple) else (None if cur is None else '?'),
                tuple(sorted((c, v) for c, v in getattr(elem, 'deficit', {}).items())) if case['kind'] == 'DRR' else None)
    if case.get('no_out') == 'never':
        pass                  # nothing is ever attached downstream (the attribute is not even assigned)
    elif case.get('no_out'):
        s.out = None          # explicitly nothing: transmitted packets are simply gone
    else:
        s.out = OutTap(w, 's', s, downstream(w, case, Recorder(w, 'sink')), post=counters)
    start_injector(w, InTap(w, 's', s, post=counters), [tuple([t0 + x[0]] + list(x[1:])) for x in case.get('workload', [])])
    if case.get('shadow'):
        sh = dict(case)
        sh.update(case['shadow'])
        sh.pop('phase2', None)
        s2, _f = build(w, sh)
        s2.out = OutTap(w, 's2', s2, Recorder(w, 'sink2'))
        start_injector(w, InTap(w, 's2', s2), [tuple([t0 + x[0]] + list(x[1:])) for x in sh.get('workload', [])], src='src2')
    mon = None
    if case.get('monitor'):
        m = case['monitor']
        sc = Script(w, 'mon', m.get('dist', [1.0]), 1.0, finite=True)
        mon = Monitor(env, s, sc, service_included=m.get('included', False))
        state = {'k': 0, 'len': {}}
        orig = sc.__call__

        def hooked():
            # the k-th draw follows the k-th sample within one action: note which lists grew and by what
            k = state['k']
            if k > 0:
                grew = []
                for f, lst in mon.byte_sizes.items():
                    if len(lst) > state['len'].get(f, 0):
                        grew.append((f, mon.sizes[f][-1], lst[-1]))
                        state['len'][f] = len(lst)
                w.rec('MON', k, tuple(sorted(grew)))
            state['k'] = k + 1
            return orig()
        mon.dist = hooked
    w.run(max_steps=400000 if case.get('long_haul') else 40000)
    if case.get('no_out'):
        try:
            w.rec('FIN', counters(s, None))
        except Exception as e:  # noqa
            w.rec('FIN', ('raised', repr(e)))
    r = Rig()
    r.w, r.s, r.mon, r.f2c, r.case = w, s, mon, f2c, case
    return r


# ------------------------------------------------------------------------------------------- history

class Hist:
    pass


def parse(r):
    w, case = r.w, r.case
    H = Hist()
    H.viol = []
    H.arr = []
    H.by = {}
    H.deps = []
    H.mons = []
    H.taps = []     # (G, t, kind, pkt, counters)
    H.errs = []
    rate = case['rate']
    mode = case.get('mode', 'GRID')
    for rec in w.log:
        tag = rec[0]
        if tag in ('IN', 'IN2', 'OUT') and rec[3] != 's':
            continue
        if tag == 'IN':
            a = {'G': rec[1], 't': rec[2], 'pkt': rec[4], 'flow': rec[5][1], 'size': rec[5][3], 'fields': rec[5],
                 'cls': r.f2c(rec[5][1])}
            H.arr.append(a)
            H.by[a['pkt']] = a
        elif tag == 'IN2':
            H.taps.append((rec[1], rec[2], 'in', rec[4], rec[5]))
        elif tag == 'OUT':
            a = H.by.get(rec[4])
            if a is None:
                H.viol.append(('.1', 'the scheduler emitted a packet that never entered it: %r' % (rec[5],)))
                continue
            if 'out' in a:
                H.viol.append(('.2', 'packet %s was transmitted twice' % rec[4]))
                continue
            a['out'] = (rec[1], rec[2])
            if rec[5] != a['fields']:
                H.viol.append(('.2', 'packet %s changed inside the scheduler: %r -> %r' % (rec[4], a['fields'], rec[5])))
            H.deps.append(a)
            H.taps.append((rec[1], rec[2], 'out', rec[4], rec[6]))
        elif tag == 'MON':
            H.mons.append((rec[1], rec[2], rec[3], rec[4]))
        elif tag == 'ERR':
            H.errs.append(rec[4])
    # service starts from the timing law's own definition
    prev = None
    pending = sorted(H.arr, key=lambda a: (a['t'], a['G']))
    ph = case.get('phase2')
    H.rate2_from = None
    H.rate2_busy = False
    for rec in w.log:
        if rec[0] == 'RECONF':
            H.rate2_from = rec[2]
            if rec[5]:
                # the rate was changed in mid busy period (the scenario is built so that this cannot happen on a scheduler
                # that serves at its rate; if it does, the timing clauses speak first): which rate a packet in flight is
                # served at is not defined by the statement - no verdict from the rate-dependent clauses
                H.rate2_busy = True
    for a in H.arr:
        a['rate'] = ph['rate'] if ph and H.rate2_from is not None and a['t'] > H.rate2_from else rate
    for k, a in enumerate(H.deps):
        a['k'] = k
        a['tx'] = a['size'] * 8.0 / a['rate']
        a['start'] = a['out'][1] - a['tx']
    H.quiescent = w.quiescent
    H.mode = mode
    H.rate = rate
    return H


def waiting_at(H, s, k):
    """Packets that certainly waited when departure #k started service at s: arrived at a strictly earlier instant
    and not among the first k departures (nor packet k itself)."""
    # arrivals are recorded in time order; everything before the low-water mark has been served by departure k
    # (queries come with rising k; a falling k restarts the scan)
    import bisect
    arr = H.arr
    cache = H.__dict__.setdefault('_wa', {'k': -1, 'lo': 0, 'times': None})
    if cache['times'] is None or len(cache['times']) != len(arr):
        cache['times'] = [a['t'] for a in arr]
        cache['k'], cache['lo'] = -1, 0
        if any(cache['times'][i] > cache['times'][i + 1] for i in range(len(arr) - 1)):
            cache['times'] = False
    if cache['times'] is False:
        return [a for a in arr if a['t'] < s and a.get('k', 1 << 60) > k]
    if k < cache['k']:
        cache['lo'] = 0
    cache['k'] = k
    lo = cache['lo']
    n = len(arr)
    while lo < n and arr[lo].get('k', 1 << 60) <= k:
        lo += 1
    cache['lo'] = lo
    hi = bisect.bisect_left(cache['times'], s)
    return [a for a in arr[lo:hi] if a.get('k', 1 << 60) > k]


# ------------------------------------------------------------------------------------------- C12 clauses

def check_generic(H, case, pid):
    viol = []
    stats = {}
    mode, rate = H.mode, H.rate
    for e in H.errs:
        viol.append(('%s.6/%s' % (pid, e[1] if isinstance(e, tuple) and len(e) > 1 else 'exc'), 'the run raised %r' % (e,)))
    for cl, msg in H.viol:
        viol.append((pid + cl, msg))
    if not H.quiescent:
        viol.append((pid + '.2', 'the run did not reach quiescence'))
    # every accepted packet of a configured flow out exactly once
    configured = set(case.get('flows', []))
    for a in H.arr:
        if 'out' not in a and a['flow'] in configured and H.quiescent and not H.errs:
            viol.append((pid + '.2', 'packet %s of flow %r (arrived %r) was never transmitted' % (a['pkt'], a['flow'], a['t'])))
            break
    # per-flow FIFO
    last = {}
    for a in H.deps:
        f = a['flow']
        if f in last and (last[f]['t'], last[f]['G']) > (a['t'], a['G']):
            viol.append((pid + '.2', 'flow %r: packet %s (arrived %r) left before the earlier %s' %
                         (f, last[f]['pkt'], last[f]['t'], a['pkt'])))
            break
        # the departing packet must be the oldest of its flow still inside
        last[f] = a
    served = set()
    arr_sorted = sorted(H.arr, key=lambda a: (a['t'], a['G']))
    for f in configured:
        seq_in = [a['pkt'] for a in H.arr if a['flow'] == f and 'out' in a]
        seq_out = [a['pkt'] for a in H.deps if a['flow'] == f]
        if seq_in != seq_out:
            viol.append((pid + '.2', 'flow %r left in order %r, entered in order %r' % (f, seq_out, seq_in)))
            break
    # timing law
    prev_dep = None
    idx = 0
    unserved = list(arr_sorted)
    arrival_times = set(b['t'] for b in H.arr)
    lo_ptr = 0
    for k, a in enumerate(H.deps):
        # earliest arrival among the packets not served before departure k (arr_sorted is in time order)
        while lo_ptr < len(arr_sorted) and arr_sorted[lo_ptr].get('k', 1 << 60) < k:
            lo_ptr += 1
        amin = arr_sorted[lo_ptr]['t'] if lo_ptr < len(arr_sorted) else a['t']
        s = amin if prev_dep is None else max(prev_dep, amin)
        want = s + a['size'] * 8.0 / a['rate']
        if a['rate'] != rate:
            stats['rate_changed_while_idle'] = 1
        if prev_dep is not None and prev_dep >= amin:
            stats['back_to_back'] = 1
        if prev_dep is not None and prev_dep in arrival_times:
            stats['arrival_exactly_at_transmission_end'] = 1
        if not close(a['out'][1], want, mode):
            viol.append((pid + '.1', 'departure #%d (%s, size %d) at %r; previous departure %r, earliest unserved arrival %r: '
                         'a work-conserving non-preemptive server at %r bit/s gives %r' %
                         (k + 1, a['pkt'], a['size'], a['out'][1], prev_dep, amin, rate, want)))
            break
        if a['t'] > s and not close(a['t'], s, mode):
            viol.append((pid + '.1', 'packet %s started service at %r before it arrived (%r)' % (a['pkt'], s, a['t'])))
            break
        a['start'] = s
        prev_dep = a['out'][1]
    # counters ledger in G order
    inside = {}
    evs = []
    for a in H.arr:
        evs.append((a['G'], 'in', a))
        if 'out' in a:
            evs.append((a['out'][0], 'out', a))
    evs.sort(key=lambda e: e[0])
    tapmap = {}
    for g, t, kind, pkt, c in H.taps:
        tapmap[(kind, pkt)] = (g, t, c)
    cnt = {f: [0, 0] for f in configured}
    for g, what, a in evs:
        f = a['flow']
        if f in cnt:
            if what == 'in':
                cnt[f][0] += 1
                cnt[f][1] += a['size']
            else:
                cnt[f][0] -= 1
                cnt[f][1] -= a['size']
        tp = tapmap.get((what, a['pkt']))
        if tp is None or tp[2] is None:
            continue
        per, total, insvc, _ = tp[2]
        for (ff, n, b) in per:
            if ff in cnt and (n, b) != tuple(cnt[ff]):
                viol.append((pid + '.3', 'after %s of %s at t=%r the scheduler reports size(%r)=%r byte_size=%r; packets of '
                             'that flow waiting or in transmission: %r packets, %r bytes' %
                             ('arrival' if what == 'in' else 'departure', a['pkt'], tp[1], ff, n, b, cnt[ff][0], cnt[ff][1])))
                break
        else:
            # packet in service (strictly inside a transmission only; boundaries are lenient)
            if what == 'in':
                t = tp[1]
                cur = [d for d in H.deps if d['start'] < t < d['out'][1]]
                if cur and insvc != cur[0]['pkt']:
                    viol.append((pid + '.3', 'at t=%r packet_in_service is %r while %s is being transmitted (%r..%r)' %
                                 (t, insvc, cur[0]['pkt'], cur[0]['start'], cur[0]['out'][1])))
            continue
        break
    # monitor
    if case.get('monitor') and H.mons:
        included = case['monitor'].get('included', False)
        for g, t, k, grew in H.mons:
            stats['monitor_sample'] = 1
            for f, n, b in grew:
                if f not in configured:
                    continue
                ins = [a for a in H.arr if a['flow'] == f and a['G'] < g and a.get('out', (1 << 62,))[0] > g]
                hn, hb = len(ins), sum(a['size'] for a in ins)
                svc = [a for a in ins if 'out' in a and a['start'] < t < a['out'][1]]
                cands = set()
                if included or not svc:
                    cands.add((hn, hb))
                else:
                    cands.add((hn - 1, hb - svc[0]['size']))
                # instants where something of this flow starts/ends/arrives: either side
                edge = [a for a in H.arr if a['flow'] == f and (a['t'] == t or ('out' in a and (a['out'][1] == t or a['start'] == t)))]
                if edge:
                    base = list(cands)
                    for a in edge:
                        for (x, y) in list(cands):
                            cands.add((x + 1, y + a['size']))
                            cands.add((x - 1, y - a['size']))
                if (n, b) not in cands:
                    viol.append((pid + '.4', 'Monitor sample #%d at t=%r for flow %r is %r packets / %r bytes (%s the packet in '
                                 'service); the flow had %r packets / %r bytes waiting or in transmission, in service: %r' %
                                 (k, t, f, n, b, 'including' if included else 'excluding', hn, hb,
                                  svc[0]['pkt'] if svc else None)))
                    break
            else:
                continue
            break
    nontrivial = any(a.get('start', a['t']) > a['t'] for a in H.deps)
    return viol, stats, nontrivial


# ------------------------------------------------------------------------------------------- C13: SP

def check_sp(H, case, pid):
    viol, stats = [], {}
    prio = dict((f, p) for f, p in case.get('table', []))
    for a in H.deps:
        if 'start' not in a:
            continue
        s, k = a['start'], a['k']
        w = waiting_at(H, s, k)
        if len(set(prio.get(x['cls'], 0) for x in w)) >= 2:
            stats['ge2_levels_backlogged'] = 1
        if any(x['t'] > (a['start']) for x in []):
            pass
        for x in w:
            if prio.get(x['cls'], 0) > prio.get(a['cls'], 0) and not close(x['t'], s, H.mode):
                viol.append((pid + '.1', 'SP started %s (class %r, priority %r) at t=%r while %s of class %r (priority %r), '
                             'which arrived at %r, was waiting' %
                             (a['pkt'], a['cls'], prio.get(a['cls']), s, x['pkt'], x['cls'], prio.get(x['cls']), x['t'])))
                return viol, stats
        # a more urgent arrival during a transmission
        if not stats.get('urgent_arrival_during_lower_transmission'):
            for x in H.arr:
                if a['start'] < x['t'] < a['out'][1] and prio.get(x['cls'], 0) > prio.get(a['cls'], 0):
                    stats['urgent_arrival_during_lower_transmission'] = 1
                    break
    return viol, stats


# ------------------------------------------------------------------------------------------- C14: stamps

def stamps(H, case, kind):
    """Recompute every packet's stamp from the observed arrival/departure history (G order)."""
    table = dict((c, v) for c, v in case.get('table', []))
    rate = H.rate
    evs = []
    for a in H.arr:
        evs.append((a['G'], 'in', a))
        if 'out' in a:
            evs.append((a['out'][0], 'out', a))
    evs.sort(key=lambda e: e[0])
    resets = 0
    if kind == 'VC':
        aux = dict((c, float('-inf')) for c in table)      # no previous packet: the first stamp is now + vtick
        for g, what, a in evs:
            if what == 'in' and a['cls'] in table:
                aux[a['cls']] = max(a['t'], aux[a['cls']]) + table[a['cls']]
                a['stamp'] = aux[a['cls']]
        return resets
    V = 0.0
    last = 0.0
    F = dict((c, 0.0) for c in table)
    count = dict((c, 0) for c in table)
    arrival_instants = set(a['t'] for a in H.arr)
    emptied_at = None
    for g, what, a in evs:
        c = a['cls']
        if c not in table:
            continue
        t = a['t'] if what == 'in' else a['out'][1]
        active = [x for x in count if count[x] > 0]
        if what == 'in':
            if not active:
                V = 0.0
                for x in F:
                    F[x] = 0.0
                resets += 1
            else:
                V += (t - last) / sum(table[x] for x in active)
            F[c] = max(F[c], V) + a['size'] * 8.0 / (a['rate'] * table[c])
            a['stamp'] = F[c]
            a['V'] = V
            count[c] += 1
        else:
            if active:
                V += (t - last) / sum(table[x] for x in active)
            count[c] -= 1
            if not any(count[x] > 0 for x in count):
                V = 0.0
                for x in F:
                    F[x] = 0.0
                emptied_at = t
                if t in arrival_instants:
                    # an arrival in the very instant the scheduler empties: the recorded order of actions says which came
                    # first. A packet handed in after the last departure (the downstream device already holds that
                    # packet, the public counters read empty) starts a new busy period with V = 0 and all F = 0; one
                    # handed in before it was stamped in the old period. (Until the ninth round this was treated as an
                    # undecidable same-instant tie and no stamp clause was applied up to the next clean idle gap.)
                    emptied_same_instant = True
        last = t
    return resets


def check_stamp_order(H, case, kind, pid):
    viol, stats = [], {}
    resets = stamps(H, case, kind)
    if resets >= 2:
        stats['virtual_time_reset'] = 1
    tol = 1e-9
    eq = 0
    # stamps are compared relative to the largest stamp of the run (on a Tbit/s link all of them are nanoseconds)
    smax = max([abs(a['stamp']) for a in H.arr if 'stamp' in a] or [1.0]) or 1.0
    for a in H.deps:
        if 'start' not in a or 'stamp' not in a:
            continue
        s, k = a['start'], a['k']
        for x in waiting_at(H, s, k):
            if 'stamp' not in x or close(x['t'], s, H.mode):
                continue
            d = a['stamp'] - x['stamp']
            if abs(d) <= tol * smax:
                eq += 1
                later = a['t'] > x['t'] or (kind == 'WFQ' and H.mode == 'GRID' and a['t'] == x['t'] and a['G'] > x['G'])
                if later and d == 0.0:
                    # equal stamps: the earlier arrival (strictly earlier instant) goes first
                    viol.append((pid + '.1', '%s started %s (stamp %r, arrived %r) at t=%r before %s with the same stamp that '
                                 'arrived earlier (%r)' % (kind, a['pkt'], a['stamp'], a['t'], s, x['pkt'], x['t'])))
                    return viol, stats
                continue
            if d > 0:
                viol.append((pid + '.1', '%s started %s (class %r, stamp %r) at t=%r while %s (class %r, stamp %r, arrived %r) '
                             'with a smaller stamp was waiting' %
                             (kind, a['pkt'], a['cls'], a['stamp'], s, x['pkt'], x['cls'], x['stamp'], x['t'])))
                return viol, stats
    if eq >= 4:
        stats['ge4_equal_stamps'] = 1
    return viol, stats


def check_wfq_fairness(H, case, pid):
    """Static backlog: normalised service of two still-backlogged classes differs by at most Lmax/wi + Lmax/wj."""
    viol, stats = [], {}
    if not H.arr or any(a['t'] != H.arr[0]['t'] for a in H.arr):
        return viol, stats
    stats['static_backlog'] = 1
    w = dict((c, v) for c, v in case.get('table', []))
    lmax = max(a['size'] for a in H.arr)
    served = dict((c, 0) for c in w)
    left = dict((c, 0) for c in w)
    for a in H.arr:
        if a['cls'] in left:
            left[a['cls']] += 1
    for a in H.deps:
        c = a['cls']
        if c not in w:
            continue
        served[c] += a['size']
        left[c] -= 1
        back = [x for x in w if left[x] > 0]
        for i in back:
            for j in back:
                if i < j:
                    d = abs(served[i] / w[i] - served[j] / w[j])
                    bound = lmax / w[i] + lmax / w[j]
                    if d > bound * (1 + 1e-9):
                        viol.append((pid + '.3', 'static backlog: after %s left, classes %r and %r (weights %r, %r) have received '
                                     '%r and %r bytes: normalised difference %r exceeds Lmax/wi + Lmax/wj = %r' %
                                     (a['pkt'], i, j, w[i], w[j], served[i], served[j], d, bound)))
                        return viol, stats
    return viol, stats


# ------------------------------------------------------------------------------------------- C15: round robin family

def check_rr(H, case, kind, pid):
    viol, stats = [], {}
    order = [c for c, _ in case.get('table', [])]
    wt = dict((c, (v if kind == 'WRR' else 1)) for c, v in case.get('table', []))
    pos = dict((c, i) for i, c in enumerate(order))
    n = len(order)
    prev = None
    run = 0
    for a in H.deps:
        if 'start' not in a or a['flow'] not in pos:
            prev = None
            continue
        s, k = a['start'], a['k']
        w = [x for x in waiting_at(H, s, k) if not close(x['t'], s, H.mode)]
        busy_before = prev is not None and close(prev['out'][1], s, H.mode)
        others = [x for x in w if x['flow'] != a['flow'] and x['flow'] in pos]
        if prev is not None and busy_before and prev['flow'] != a['flow']:
            # classes strictly between prev and this one (cyclically) must have had nothing waiting
            i = (pos[prev['flow']] + 1) % n
            while i != pos[a['flow']]:
                c = order[i]
                skipped = [x for x in w if x['flow'] == c]
                if skipped:
                    viol.append((pid + '.1', '%s went from class %r to class %r at t=%r skipping class %r whose packet %s '
                                 '(arrived %r) was waiting' % (kind, prev['flow'], a['flow'], s, c, skipped[0]['pkt'],
                                                               skipped[0]['t'])))
                    return viol, stats
                i = (i + 1) % n
            stats['class_change_under_backlog'] = 1
        # per-visit allowance
        if prev is not None and busy_before and prev['flow'] == a['flow'] and others:
            run += 1
        else:
            run = 1
        if run > wt[a['flow']]:
            viol.append((pid + '.2', '%s sent %d packets of class %r in one visit (allowance %d) while %s of class %r was '
                         'waiting since %r' % (kind, run, a['flow'], wt[a['flow']], others[0]['pkt'], others[0]['flow'],
                                               others[0]['t'])))
            return viol, stats
        if run >= 2:
            stats['multi_packet_visit'] = 1
        prev = a
    return viol, stats


def drr_reference(H, case):
    """Exact DRR service order for a coincidence-free workload, written from the statement."""
    order = [c for c, _ in case.get('table', [])]
    w = dict((c, v) for c, v in case.get('table', []))
    mw = min(w.values())
    Q = dict((c, 1500 * w[c] / mw) for c in order)
    rate = H.rate
    arr = sorted([a for a in H.arr if a['cls'] in w], key=lambda a: (a['t'], a['G']))
    queues = dict((c, []) for c in order)
    deficit = dict((c, 0.0) for c in order)
    out = []
    i = 0
    now = 0.0
    ptr = 0
    n = len(order)

    def admit(upto):
        nonlocal i
        while i < len(arr) and arr[i]['t'] <= upto:
            queues[arr[i]['cls']].append(arr[i])
            i += 1
    while i < len(arr) or any(queues[c] for c in order):
        if not any(queues[c] for c in order):
            now = max(now, arr[i]['t'])
            admit(now)
            for c in order:
                deficit[c] = 0.0
            # idle restart: the round starts at the first class in declaration order that has a packet
            ptr = 0
        # visit classes from ptr
        progressed = False
        for step in range(n):
            c = order[(ptr + step) % n]
            if not queues[c]:
                continue
            deficit[c] += Q[c]
            while queues[c] and queues[c][0]['size'] <= deficit[c]:
                p = queues[c].pop(0)
                now = max(now, p['t']) + p['size'] * 8.0 / p.get('rate', rate)
                out.append((p['pkt'], now))
                deficit[c] -= p['size']
                admit(now)
                progressed = True
                if not queues[c]:
                    deficit[c] = 0.0
            # after a full pass the pointer wraps
        ptr = 0
        if not progressed and not any(queues[c] for c in order):
            continue
    return out, Q


def check_drr(H, case, pid):
    viol, stats = [], {}
    table = case.get('table', [])
    w = dict((c, v) for c, v in table)
    if not w:
        return viol, stats
    mw = min(w.values())
    Q = dict((c, 1500 * w[c] / mw) for c in w)
    lmax = max([a['size'] for a in H.arr] or [0])
    # credit bounds from the public deficit dict, read at every tap
    taps = sorted(H.taps, key=lambda x: x[0])
    inside = dict((c, 0) for c in w)
    evs = []
    for a in H.arr:
        evs.append((a['G'], 'in', a))
        if 'out' in a:
            evs.append((a['out'][0], 'out', a))
    evs.sort(key=lambda e: e[0])
    tapmap = dict(((kind, pkt), (g, t, c)) for g, t, kind, pkt, c in H.taps)
    seen_def = False
    for g, what, a in evs:
        if a['cls'] in inside:
            inside[a['cls']] += 1 if what == 'in' else -1
        tp = tapmap.get((what, a['pkt']))
        if tp is None or tp[2] is None or tp[2][3] is None:
            continue
        seen_def = True
        for c, dv in tp[2][3]:
            if c not in w:
                continue
            if c in Q and abs(dv - Q[c]) < 0:
                pass
            # (with fractional quanta the credit can come within one rounding error of the open upper end)
            if dv < 0 or dv >= (Q[c] + lmax) * (1 + 1e-12):
                viol.append((pid + '.3', 'DRR credit of class %r is %r at t=%r, outside [0, quantum %r + largest packet %r)' %
                             (c, dv, tp[1], Q[c], lmax)))
                return viol, stats
            if what == 'out' and inside[c] == 0 and a['cls'] == c and dv != 0:
                # read inside the departure action, before the scheduler has looked at the empty queue: lenient
                pass
    if seen_def:
        stats['deficit_observed'] = 1
    quantum = getattr(H, 'quantum', None)
    if quantum is not None:
        for c in w:
            if c in quantum and quantum[c] != Q[c]:
                viol.append((pid + '.3', 'DRR quantum of class %r is %r, expected 1500*%r/%r = %r' % (c, quantum[c], w[c], mw, Q[c])))
                return viol, stats
    # fairness bound over every period in which two classes both stay backlogged
    deps = H.deps
    cls = sorted(w)
    for i in cls:
        for j in cls:
            if i >= j:
                continue
            # maximal periods where both have a packet inside (by G order of taps)
            cnt = {i: 0, j: 0}
            Bi = Bj = 0
            lo_i = hi_i = 0.0
            period = False
            vals = []
            for g, what, a in evs:
                c = a['cls']
                if c in cnt:
                    if what == 'in':
                        cnt[c] += 1
                    else:
                        cnt[c] -= 1
                        if period:
                            if c == i:
                                Bi += a['size']
                            else:
                                Bj += a['size']
                            vals.append(Bi / Q[i] - Bj / Q[j])
                both = cnt[i] > 0 and cnt[j] > 0
                if both and not period:
                    period = True
                    Bi = Bj = 0
                    vals = [0.0]
                elif not both and period:
                    period = False
                    if vals:
                        stats['both_backlogged_period'] = 1
                        spread = max(vals) - min(vals)
                        bound = 4 + 3 * lmax * (1 / Q[i] + 1 / Q[j])
                        if spread >= bound:
                            viol.append((pid + '.4', 'DRR: while classes %r and %r both stayed backlogged, bytes/quantum differ '
                                         'by up to %r, bound 4 + 3*Lmax*(1/Qi+1/Qj) = %r' % (i, j, spread, bound)))
                            return viol, stats
    # exact reference on coincidence-free workloads
    if H.mode == 'DISTINCT' and H.quiescent and not H.errs:
        ref, _ = drr_reference(H, case)
        got = [(a['pkt'], a['out'][1]) for a in H.deps if a['cls'] in w]
        if [x[0] for x in ref] != [x[0] for x in got]:
            k = next((n for n, (x, y) in enumerate(zip(ref, got)) if x[0] != y[0]), min(len(ref), len(got)))
            viol.append((pid + '.5', 'DRR service order differs from deficit round robin at departure #%d: expected %s, '
                         'observed %s (quanta %r; order so far %r)' %
                         (k + 1, ref[k][0] if k < len(ref) else None, got[k][0] if k < len(got) else None, Q,
                          [x[0] for x in got[:k]])))
        else:
            stats['drr_exact_reference_matched'] = 1
    return viol, stats
