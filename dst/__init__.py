"""Deterministic simulation with fault injection for OpenNetLab-Edu (see /verif/DESIGN.md)."""
