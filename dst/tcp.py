"""Engine TCP: the real TCPPacketGenerator / TCPSink joined by scripted fault links, and a scripted ACK-feeding peer."""
from .core import san
from .net import NetWorld, fields_of
from onl.packet import Packet, TCPPacketGenerator, TCPSink, TCPReno, TCPCubic
from onl.packet.tcp_generator import Flow

MSS = 512
_HELD = {}


class FaultLink:
    """The only 'network' the two TCP ends see. Per transmission index a scripted decision:
    ok | drop | dup | delay:<extra> ; after the script is exhausted the path is reliable. Delays are simulated time."""

    def __init__(self, w, name, nxt, script, base, sync=False):
        self.w, self.name, self.nxt, self.script, self.base = w, name, nxt, dict(script), base
        self.n = 0
        self.fired = {}
        self.sync = sync      # a path without any delay: the packet is handed over inside put() (direct wiring)

    def put(self, p):
        w = self.w
        idx = self.n
        self.n += 1
        act = self.script.get(idx, self.script.get(str(idx), 'ok'))
        seq = p.ack if self.name == 'ack' else p.packet_id
        w.rec('TX', self.name, idx, seq, p.packet_id, act, getattr(p, 'time', None))
        kind = act.split(':')[0] if isinstance(act, str) else 'ok'
        self.fired[kind] = self.fired.get(kind, 0) + 1
        if kind == 'drop':
            return
        extra = float(act.split(':')[1]) if kind == 'delay' else 0.0
        if self.sync and kind != 'delay':
            for _ in range(2 if kind == 'dup' else 1):
                w.rec('RX', self.name, idx, p.ack if self.name == 'ack' else p.packet_id)
                self.nxt.put(p)
            return
        w.env.process(self._deliver(p, self.base + extra, idx))
        if kind == 'dup':
            w.env.process(self._deliver(p, self.base * 2 + 0.01, idx))

    def _deliver(self, p, d, idx):
        yield self.w.env.timeout(d)
        self.w.rec('RX', self.name, idx, p.ack if self.name == 'ack' else p.packet_id)
        self.nxt.put(p)


class SenderTap:
    """sender.out: records each segment with the sender's public state at that moment, then forwards."""

    def __init__(self, w, sender_ref, nxt):
        self.w, self.ref, self.nxt = w, sender_ref, nxt

    def put(self, p):
        s = self.ref[0]
        cc = s.congestion_control
        self.w.rec('SEG', p.packet_id, p.size, p.flow_id, san(p.time), s.next_seq, s.last_ack, s.send_buffer, cc.cwnd,
                   cc.ssthresh, s.rto)
        if self.nxt is not None:
            self.nxt.put(p)


def make_sender(w, case, out):
    env = w.env
    size = case.get('segments', 4) * MSS + case.get('tail', 0)
    pace = case.get('pace')
    msg = case.get('msg', MSS)
    held = _HELD.get('flow') if case.get('reuse_flow') else None
    flow = held or Flow(flow_id=case.get('fid', 1), src='h0', dst='h1', start_time=case.get('start', 0) or None,
                finish_time=None if case.get('no_finish') else case.get('finish', 1e12), size=size,
                arrival_dist=(lambda: pace) if pace else None,
                size_dist=(lambda: msg) if pace else ((lambda: case['chunk']) if case.get('chunk') else None))
    if case.get('reuse_flow'):
        _HELD['flow'] = flow            # the description of the flow is an object of the user: the next run uses it again
    if case.get('cc', 'reno') == 'cubic':
        cc = TCPCubic()
    else:
        cc = TCPReno(mss=MSS, cwnd=case.get('cwnd', MSS), ssthresh=case.get('ssthresh', 65535))
    ref = [None]
    tap = SenderTap(w, ref, out)
    s = TCPPacketGenerator(env, flow, cc, element_id='h0', rtt_estimate=case.get('rtt_est', 1.0))
    ref[0] = s
    s.out = tap
    # observe retransmission timeouts: Timer objects are created with the attribute looked up at send time
    orig = s.timeout_callback

    def observed(packet_id, orig=orig):
        w.rec('TO', packet_id, 'enter')
        try:
            return orig(packet_id)
        finally:
            w.rec('TO', packet_id, 'exit', s.congestion_control.cwnd, s.congestion_control.ssthresh, s.rto)
    s.timeout_callback = observed
    return s, flow


def state_of(s):
    cc = s.congestion_control
    return (cc.cwnd, cc.ssthresh, s.rto, s.last_ack, s.next_seq, s.dupack if hasattr(s, 'dupack') else None)
