"""Engine N: generated packet workloads through real network elements wrapped by recording taps.

Records (G = global action number):
  ('IN',  G, now, elem, pkt, fields, pre)     a packet is about to be handed to elem.put(); pre = element state before
  ('IN2', G, now, elem, pkt, post)            elem.put() returned; post = public counters afterwards
  ('OUT', G, now, elem, pkt, fields, post)    elem handed the packet to its out
  ('DRAW', G, now, name, value, who)          a scripted distribution / random draw
  ('MON', G, now, name, k)                    monitor sampled (its k-th sample is complete)
  ('ERR', G, now, step, exc)                  a kernel step raised
"""
from .core import san
from .tap import TapEnvironment, EmptySchedule, StopSimulation
from onl.packet import Packet

FIELDS = ('packet_id', 'flow_id', 'src', 'size', 'time', 'payload')


def fields_of(p):
    return tuple(san(getattr(p, f, '<missing>')) for f in FIELDS)


class NetWorld:
    def __init__(self, t0=0, bare=False):
        # bare: the same scenario built from library elements only - taps vanish (upstream gets the element itself, the
        # element's `out` is the next element), every branch ends in a library PacketSink, nobody holds on to a packet or
        # reads a counter while the simulation runs. What the sinks have recorded at the end is compared with the
        # instrumented run (`sink_view`): an element that behaves differently when nobody watches it gives itself away.
        self.bare = bare
        self.sinks = {}
        self.env = TapEnvironment(t0)
        self.env.tap_enabled = False
        self.log = self.env.log
        self.plabel = {}
        self.pobj = {}
        self.raised = []
        self.pnames = {}

    def rec(self, tag, *rest):
        env = self.env
        env.log.append((tag, env.tick(), env.now) + rest)

    def label(self, p):
        lb = self.plabel.get(p)
        if lb is None:
            lb = 'k%d' % (len(self.plabel) + 1)
            self.plabel[p] = lb
            self.pobj[lb] = p
        return lb

    def run(self, max_steps=200000, until=None):
        env = self.env
        n = 0
        while n < max_steps:
            if until is not None and env.peek() > until:
                break
            try:
                env.step()
            except EmptySchedule:
                break
            except StopSimulation:
                pass
            except ScriptDone:
                pass
            except Exception as e:
                self.raised.append(san(e))
                self.rec('ERR', env.step_no, san(e))
            n += 1
        self.steps = n
        self.quiescent = env.peek() == float('inf')
        return n


class InTap:
    """What upstream sees instead of the element: logs, forwards to the real put(), logs the counters."""

    def __new__(cls, w, name, elem, pre=None, post=None):
        if getattr(w, 'bare', False):
            return elem
        return object.__new__(cls)

    def __init__(self, w, name, elem, pre=None, post=None):
        self.w, self.name, self.elem, self.pre, self.post = w, name, elem, pre, post
        self.element_id = getattr(elem, 'element_id', name) if hasattr(elem, '_element_id') else name

    def put(self, p):
        w = self.w
        lb = w.label(p)
        w.rec('IN', self.name, lb, fields_of(p), self.pre(self.elem, p) if self.pre else None)
        r = self.elem.put(p)
        w.rec('IN2', self.name, lb, self.post(self.elem, p) if self.post else None)
        return r


class OutTap:
    def __new__(cls, w, name, elem, nxt=None, post=None):
        if getattr(w, 'bare', False):
            return nxt
        return object.__new__(cls)

    def __init__(self, w, name, elem, nxt=None, post=None):
        self.w, self.name, self.elem, self.nxt, self.post = w, name, elem, nxt, post

    def put(self, p):
        w = self.w
        w.rec('OUT', self.name, w.label(p), fields_of(p), self.post(self.elem, p) if self.post else None)
        if self.nxt is not None:
            return self.nxt.put(p)


class Recorder:
    """Terminates a branch."""

    def __new__(cls, w, name):
        if getattr(w, 'bare', False):
            from onl.packet import PacketSink
            ps = PacketSink(w.env, rec_arrivals=True, absolute_arrivals=True, rec_waits=True, rec_flow_ids=True)
            w.sinks[name] = ps
            return ps
        return object.__new__(cls)

    def __init__(self, w, name):
        self.w, self.name = w, name
        self.got = []

    def put(self, p):
        self.w.rec('SINK', self.name, self.w.label(p), fields_of(p))
        self.got.append(p)


class ScriptDone(Exception):
    """Raised by a finite Script when it is exhausted: ends the harness-driven sampler process."""


class Script:
    """A distribution that replays a generated list (cycling, or once when finite) and logs each draw."""

    def __init__(self, w, name, values, default=1.0, finite=False):
        self.w, self.name, self.values, self.default = w, name, list(values), default
        self.i = 0
        self.finite = finite

    def __call__(self):
        if self.finite and self.i >= len(self.values):
            self.w.rec('DRAW', self.name, None, None)
            raise ScriptDone()
        if self.values:
            v = self.values[self.i % len(self.values)]
        else:
            v = self.default
        self.i += 1
        ap = self.w.env.active_process
        self.w.rec('DRAW', self.name, v, self.w.pnames.get(ap) if ap is not None else None)
        return v


class ScriptedRandom:
    """Stands in for the `random` module inside one repo module: uniform() replays scripted draws."""

    def __init__(self, w, name, values):
        self.w, self.name, self.values = w, name, list(values)
        self.i = 0

    def uniform(self, a, b):
        v = self.values[self.i % len(self.values)] if self.values else 0.5
        self.i += 1
        self.w.rec('DRAW', self.name, v, None)
        return a + (b - a) * v

    def random(self):
        return self.uniform(0, 1)

    def __getattr__(self, name):
        # anything else the module under test may use from `random` is the real thing
        import random as _r
        return getattr(_r, name)


def sink_view(w):
    """sink name -> flow -> [(arrival time, size, creation time)] in arrival order, from either kind of world."""
    out = {}
    if getattr(w, 'bare', False):
        for name, ps in w.sinks.items():
            v = {}
            for f in ps.arrivals:
                v[repr(f)] = list(zip(ps.arrivals[f], ps.packet_sizes[f], ps.packet_times[f]))
            out[name] = v
        return out
    for r in w.log:
        if r[0] == 'SINK':
            f = r[5]
            out.setdefault(r[3], {}).setdefault(repr(f[1]), []).append((r[2], f[3], f[4]))
    return out


def compare_sink_views(a, b):
    """None, or a description of the first difference between an instrumented run (a) and its bare twin (b)."""
    for name in sorted(set(a) | set(b)):
        fa, fb = a.get(name, {}), b.get(name, {})
        for f in sorted(set(fa) | set(fb)):
            la, lb = fa.get(f, []), fb.get(f, [])
            if la != lb:
                k = next((i for i, (x, y) in enumerate(zip(la, lb)) if x != y), min(len(la), len(lb)))
                return ('at sink %s, flow %s: %d packets with taps and %d without; packet #%d (arrival, size, created): %r with '
                        'taps, %r without' % (name, f, len(la), len(lb), k + 1, la[k] if k < len(la) else None,
                                              lb[k] if k < len(lb) else None))
    return None


def injector(w, target, workload, src='src'):
    """Harness process: hands the packets of a workload [(t, flow, size), ...] to target.put at their instants;
    packets listed for one instant are injected back to back in one action (a burst)."""
    env = w.env
    n = 0
    made = []
    for it in workload:
        if len(it) < 3:
            continue
        t, flow, size = it[0], it[1], it[2]
        d = t - env.now
        if d > 0:
            yield env.timeout(d)
        # optional 6th field: zero-delay hops before the hand-over (moves the arrival later among the actions of its
        # instant, e.g. behind a transmission end that is due at the same time)
        for _ in range(int(it[5]) if len(it) > 5 and it[5] else 0):
            yield env.timeout(0)
        n += 1
        if len(it) > 4 and it[4] is not None and made:
            # optional 5th field: hand in the very same Packet object again (what a retransmitting sender does)
            p = made[it[4] % len(made)]
        else:
            # optional 4th field: age of the packet (it was created `age` before it reaches the element)
            p = Packet(env.now - (it[3] if len(it) > 3 and it[3] else 0), size, n, src=src, flow_id=flow, payload=('pl', n))
            if not getattr(w, 'bare', False) or any(len(x) > 4 and x[4] is not None for x in workload):
                made.append(p)           # (a bare world keeps no packet alive longer than the elements do)
        target.put(p)
        del p


def start_injector(w, target, workload, src='src'):
    wl = sorted([x for x in workload if len(x) >= 3], key=lambda x: x[0])
    return w.env.process(injector(w, target, wl, src))


def stretch_workload(wl, n):
    """A long life from a short pattern: the workload repeated, each copy shifted behind the previous one (the same
    bursts, gaps and coincidences over and over, thousands of packets in all)."""
    if not wl:
        return wl
    t0 = min(x[0] for x in wl)
    span = max(x[0] for x in wl) - t0
    period = float(int(span) + 1)
    out, k = [], 0
    while len(out) < n:
        for x in wl:
            y = list(x)
            y[0] = x[0] + k * period
            if len(y) > 4:
                y[4] = None          # (re-entering Packet objects refer to indices of the short pattern)
            out.append(y)
        k += 1
    return out[:n]


def close(a, b, mode):
    if mode == 'FLOAT':
        return abs(a - b) <= 1e-9 * max(1.0, abs(a), abs(b))
    return a == b


# ------------------------------------------------------------------------------------------- workloads

GRID_RATES = [1024, 4096, 8192, 65536]
FLOAT_RATES = [1000.0, 9600.0, 1.5e6, 33333.0]
SIZES = [40, 64, 100, 128, 256, 512, 1000, 1500]


def gen_times(rng, n, mode, horizon=None):
    """Arrival instants: bursts, gaps; GRID = multiples of 1/8, DISTINCT = GRID + per-packet odd*2^-20, FLOAT."""
    ts = []
    t = 0.0
    for k in range(n):
        r = rng.random()
        if r < 0.35:
            pass                       # same instant as the previous one (burst)
        elif r < 0.8:
            t += rng.choice([0.125, 0.125, 0.25, 0.5, 1.0])
        else:
            t += rng.choice([2.0, 4.0, 16.0])
        if mode == 'FLOAT':
            ts.append(t + (rng.random() * 0.1 if r >= 0.35 else 0.0) if k else t)
            t = ts[-1]
        elif mode == 'DISTINCT':
            ts.append(t + (2 * k + 1) * 2.0 ** -20)
        else:
            ts.append(t)
    return ts


def valid_workloads(case):
    """A minimised case must stay inside the property's quantifier: packet sizes >= 1 byte, instants >= 0."""
    for key in ('workload', 'workload2', 'workload_b'):
        for x in case.get(key, []) or []:
            if len(x) not in (3, 4, 5, 6) or x[2] < 1 or x[0] < 0:
                return False
            if len(x) > 3 and not (x[3] is None or isinstance(x[3], (int, float))):
                return False
            if len(x) > 5 and not (x[5] is None or (isinstance(x[5], int) and 0 <= x[5] <= 8)):
                return False
    return True


def valid_workloads_noreuse(case):
    """As valid_workloads, for scenarios whose packets are all distinct objects (5th field unused)."""
    if not valid_workloads(case):
        return False
    for key in ('workload', 'workload2', 'workload_b'):
        for x in case.get(key, []) or []:
            if len(x) > 4 and x[4] is not None:
                return False
    return True
