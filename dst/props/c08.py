"""C08 - packets are never lost, duplicated or invented between source and sink (DESIGN.md C08)."""
from ..core import digest_of, san
from ..net import (NetWorld, InTap, OutTap, Recorder, Script, ScriptedRandom, ScriptDone, start_injector, gen_times,
                   fields_of, GRID_RATES, SIZES)
from ..net import valid_workloads as _valid_wl
from onl.netdev.red_port import REDPort
import onl.netdev.red_port as red_mod
from onl.netdev import Port, Wire, TokenBucket, TwoRateTokenBucket, SimplePacketSwitch, FairPacketSwitch
from onl.netdev.demux import FlowDemux, FIBDemux
from onl.scheduler import SP, WFQ, VC, DRR, RR, WRR
from onl.packet import DistPacketGenerator, PacketSink
import onl.netdev.wire as wire_mod

ID = 'C08'
SHRINK_KEEP = ('stages', 'branches', 'sink')
TIERS = {'quick': {'runs': 6000, 'budget_s': 30}, 'thorough': {'runs': 300000, 'budget_s': 600}}
RULE = ('random compositions: 1-3 sources (harness injectors with bursts and real DistPacketGenerators with scripted '
        'inter-arrival/size draws) -> chain of 1-4 stages drawn from Port (rates incl. 0, limits), Wire (scripted delays and '
        'loss), TokenBucket, TwoRateTokenBucket, SP, WFQ, VC, DRR, RR, WRR, FlowDemux / FIBDemux fan-out into sub-chains, '
        'SimplePacketSwitch, FairPacketSwitch -> real PacketSinks; every element is wrapped by identity-recording taps; '
        'non-trivial = >=2 stages on some path and >=5 packets; distinct = history digest')
REAL = ['every element named above', 'onl.packet.DistPacketGenerator', 'onl.packet.PacketSink', 'onl.sim kernel']
STUBS = ['injectors, taps, scripted distributions, ScriptedRandom replacing onl.netdev.wire.random']
ASSUMPTIONS = ['workloads use only flows configured in every scheduler on their path', 'a packet is "discarded by the documented '
               'rule" when the element\'s own counter / the scripted loss draw / the routing rule says so; anything else '
               'missing at quiescence is a loss']
PROBES = ['tick_clock', 'fast_link', 'fib_replaced', 'elem_RED', 'red_drop', 'sched_many_to_one', 'elem_Port', 'elem_Wire', 'elem_TB', 'elem_TRTB', 'elem_SP', 'elem_WFQ', 'elem_VC', 'elem_DRR', 'elem_RR',
          'elem_WRR', 'elem_FlowDemux', 'elem_FIBDemux', 'elem_SimpleSwitch', 'elem_FairSwitch', 'tail_drop', 'wire_loss',
          'compared_with_bare_twin', 'end_devices_at_demux', 'no_route', 'fan_in', 'fan_out', 'generator', 'sink_per_src', 'sink_interarrival']

SCHEDS = {'SP': SP, 'WFQ': WFQ, 'VC': VC, 'DRR': DRR, 'RR': RR, 'WRR': WRR}


def valid(case):
    for s in case.get('sources', []):
        if s.get('kind') == 'inj' and not _valid_wl({'workload': s.get('workload', [])}):
            return False
        if s.get('kind') == 'gen' and (any(x < 1 for x in s.get('sizes', [])) or any(x < 0 for x in s.get('gaps', []))):
            return False
    return True


# ------------------------------------------------------------------------------------------- generation

def gen_fib_updates(rng, flows, nb):
    """The operator replaces the forwarding table while traffic flows (routes appear, move and disappear)."""
    ups = []
    for _ in range(rng.randint(1, 3)):
        ups.append([rng.choice([0, 0.5, 1, 2, 4, 8, 16]), [[f, rng.randrange(nb)] for f in flows if rng.random() < 0.8]])
    return sorted(ups, key=lambda u: u[0])


def gen_stage(rng, flows, allow_fan=True, depth=0, tick=False):
    nf = len(flows)
    kinds = ['Port', 'Port', 'RED', 'Wire', 'TB', 'TRTB', 'SP', 'WFQ', 'VC', 'DRR', 'DRR', 'RR', 'WRR']
    if tick:
        # integer clock: only elements whose own arithmetic stays in integers
        kinds = ['Wire', 'Wire']
    if allow_fan:
        kinds += ['FlowDemux', 'FIBDemux'] if tick else ['FlowDemux', 'FIBDemux', 'SimpleSwitch', 'FairSwitch']
    k = rng.choice(kinds)
    rate = rng.choice(GRID_RATES + [65536, 1 << 20])
    if k == 'Port':
        r = rng.random()
        st = {'t': 'Port', 'rate': rng.choice([rate, rate, 0])}
        if r < 0.4:
            st['qlimit'], st['lb'] = None, False
        elif r < 0.7:
            st['qlimit'], st['lb'] = rng.choice([1500, 3000, 5000]), True
        else:
            st['qlimit'], st['lb'] = rng.choice([2, 3, 5, 8]), False
        return st
    if k == 'RED':
        lb = rng.random() < 0.4
        unit = 1000 if lb else 1
        mn = rng.choice([1, 2]) * unit
        mx = mn + rng.choice([1, 2]) * unit
        return {'t': 'RED', 'rate': rng.choice([1024, 4096, rate]), 'lb': lb, 'min': mn, 'max': mx,
                'qlimit': mx + rng.choice([0, 1, 2]) * unit, 'maxp': rng.choice([0.1, 0.5, 1.0]), 'wf': rng.choice([0, 1, 2, 9]),
                'draws': [rng.random() for _ in range(8)]}
    if k == 'Wire' and tick:
        return {'t': 'Wire', 'delays': [rng.choice([0, 1, 2, 5, 11]) for _ in range(rng.randint(1, 5))],
                'loss': rng.choice([None, None, 0.3, 1]), 'draws': [rng.random() for _ in range(8)]}
    if k == 'Wire':
        return {'t': 'Wire', 'delays': [rng.choice([0, 0.125, 0.25, 1, 2]) for _ in range(rng.randint(1, 5))],
                'loss': rng.choice([None, None, 0.3, 1]), 'draws': [rng.random() for _ in range(8)]}
    if k == 'TB':
        return {'t': 'TB', 'rate': rate, 'bucket': rng.choice([256, 1500, 4096]), 'peak': rng.choice([None, rate * 4])}
    if k == 'TRTB':
        pir = rng.choice([None, rate * 2])
        return {'t': 'TRTB', 'cir': rate, 'cbs': rng.choice([512, 1500, 4096]), 'pir': pir,
                'pbs': rng.choice([1500, 3000]) if pir else None}
    if k in SCHEDS:
        if k == 'SP':
            table = [[f, rng.choice([1, 2, 3])] for f in flows]
        elif k == 'VC':
            table = [[f, rng.choice([0.25, 0.5, 1.0])] for f in flows]
        elif k == 'RR':
            table = [[f, 1] for f in flows]
        else:
            table = [[f, rng.choice([1, 2, 3])] for f in flows]
        st = {'t': k, 'rate': rate, 'table': table}
        if k in ('WFQ', 'VC', 'DRR') and nf >= 2 and rng.random() < 0.4:
            # several flows per class: the class table is keyed by class id
            ncls = rng.randint(1, nf - 1)
            fmap = [rng.randrange(ncls) for _ in flows]
            st['fmap'] = fmap
            st['table'] = [[c, rng.choice([0.25, 0.5]) if k == 'VC' else rng.choice([1, 2, 3])] for c in sorted(set(fmap))]
        return st
    if k in ('FlowDemux', 'FIBDemux'):
        nb = rng.randint(1, max(1, nf))
        st = {'t': k, 'branches': [gen_chain(rng, flows, rng.randint(0, 2), False, tick) for _ in range(nb)],
              'default': gen_chain(rng, flows, rng.randint(0, 1), False, tick) if rng.random() < 0.5 else None}
        if k == 'FIBDemux':
            st['fib'] = [[f, rng.randrange(nb)] for f in flows if rng.random() < 0.85]
            if rng.random() < 0.3:
                # hosts attached to this node: end devices registered for some flows (they take precedence over the
                # table; the other flows are still routed, or fall back to the default output)
                st['ends'] = [f for f in flows if rng.random() < 0.3]
            if rng.random() < 0.3:
                st['fib_updates'] = gen_fib_updates(rng, flows, nb)
        return st
    if k == 'SimpleSwitch':
        return {'t': 'SimpleSwitch', 'nports': rng.randint(1, nf), 'rate': rate, 'buffer': rng.choice([2, 4, 16, 64]),
                'branches': None}
    st = {'t': 'FairSwitch', 'nports': rng.randint(1, 3), 'rate': rate, 'buffer': rng.choice([2, 4, 16, 64]),
          'server': rng.choice(['WFQ', 'DRR', 'SP', 'VirtualClock']),
          'weights': [[f, rng.choice([1, 2, 3])] for f in flows],
          'fib': [[f, rng.randrange(3)] for f in flows if rng.random() < 0.9]}
    if rng.random() < 0.3:
        st['fib_updates'] = gen_fib_updates(rng, flows, 3)
    return st


def gen_chain(rng, flows, n, allow_fan, tick=False):
    out = []
    for i in range(n):
        st = gen_stage(rng, flows, allow_fan and i == n - 1, tick=tick)
        out.append(st)
    return out


def _scale_stages(stages, c):
    """The same pipeline on links 2**k times as fast with every duration divided by 2**k (exact in binary)."""
    for st in _all_stages(stages):
        for key in ('rate', 'cir', 'pir', 'peak'):
            if st.get(key):
                st[key] = st[key] * int(c)
        if st.get('delays'):
            st['delays'] = [d / c for d in st['delays']]
        if st.get('t') == 'VC':
            st['table'] = [[k, v / c] for k, v in st['table']]
        if st.get('fib_updates'):
            st['fib_updates'] = [[t / c, fib] for t, fib in st['fib_updates']]


def gen(rng, tier, plain=False):
    nf = rng.randint(1, 4)
    flows = list(range(nf))
    sources = []
    r0 = rng.random()
    tick = r0 < 0.08 and not plain          # an integer clock far from zero (ticks, e.g. nanoseconds since the epoch)
    for s in range(rng.randint(1, 3)):
        if rng.random() < 0.4:
            n = rng.randint(1, 25)
            gp = [0, 1, 2, 3, 7] if tick else [0, 0.125, 0.25, 1, 2]
            sources.append({'kind': 'gen', 'id': 'g%d' % s, 'flow': rng.choice(flows),
                            'init': rng.choice([0, 4, 1] if tick else [0, 0.5, 1]), 'gaps': [rng.choice(gp) for _ in range(n)],
                            'sizes': [rng.choice(SIZES) for _ in range(n)]})
        else:
            n = rng.randint(1, 40)
            ts = gen_times(rng, n, 'GRID')
            sc = rng.choice([1, 0.25, 4])
            sources.append({'kind': 'inj', 'id': 'i%d' % s,
                            'workload': [[int(ts[k] * 8) if tick else ts[k] * sc, rng.choice(flows), rng.choice(SIZES)]
                                         for k in range(n)]})
    case = {'engine': 'N', 'flows': flows, 'sources': sources,
            'stages': gen_chain(rng, flows, rng.randint(1, 4), True, tick),
            'sink': {'rec_arrivals': rng.random() < 0.8, 'absolute': rng.random() < 0.5, 'rec_waits': rng.random() < 0.8,
                     'by_flow': rng.random() < 0.6, 'debug': rng.random() < 0.1}}
    if case['sink']['debug'] and not tick and rng.random() < 0.6:
        # a burst of a dozen packets of one flow that reaches the sink within one instant
        t_b = rng.choice([0, 1.0, 2.5])
        sources.append({'kind': 'inj', 'id': 'ib', 'workload': [[t_b, flows[0], 64] for _ in range(12)]})
        case['stages'] = [{'t': 'Wire', 'delays': [0.25], 'loss': None, 'draws': [0.5]}] if rng.random() < 0.5 else \
            [{'t': 'Port', 'rate': 0, 'qlimit': None, 'lb': False}]
    if tick:
        case['t0'] = rng.choice([10 ** 12, 2 ** 60 + 1, 1700000000123456789])
        for st in _all_stages(case['stages']):
            if st.get('fib_updates'):
                st['fib_updates'] = [[int(t * 2), fib] for t, fib in st['fib_updates']]
    elif r0 < 0.2:
        c = 2.0 ** rng.choice([15, 20, 24])
        case['fast_link'] = True
        _scale_stages(case['stages'], c)
        for s in sources:
            if s['kind'] == 'gen':
                s['init'] = s['init'] / c
                s['gaps'] = [g / c for g in s['gaps']]
            else:
                for x in s['workload']:
                    x[0] = x[0] / c
    if not plain and rng.random() < 0.2:
        case['twin'] = True
    if not tick and not case.get('fast_link') and not plain and rng.random() < 1 / 70:
        # a long haul through one scheduler (or port): thousands of packets in one busy period, nothing may be lost,
        # reordered within a flow, or left behind
        kinds = ['WFQ', 'WFQ', 'DRR', 'SP', 'VC', 'Port']
        st = None
        for _ in range(40):
            st = gen_stage(rng, flows, False, tick=False)
            if st['t'] in kinds:
                break
        if st is not None and st['t'] in kinds:
            if st['t'] == 'Port':
                st['qlimit'] = None
            rate = st.get('rate') or 8192
            n = rng.choice([2600, 4200, 9300])
            step = 1024 * 8.0 / rate * (10.5 / 11) * 31 / 32.0
            case['stages'] = [st]
            case['sources'] = [{'kind': 'inj', 'id': 'i0',
                                'workload': [[k * step, flows[(k * 7 + k // 5) % len(flows)], 1024 if k % 11 else 512]
                                             for k in range(n)]}]
            case['long_haul'] = True
    return case


# ------------------------------------------------------------------------------------------- construction

class Node:
    """One tapped element: name, the real object, its outputs, how it may legally discard."""

    def __init__(self, name, kind, obj, spec):
        self.name, self.kind, self.obj, self.spec = name, kind, obj, spec
        self.outs = []      # names of out taps


class Builder:
    def __init__(self, w, case):
        self.w, self.case = w, case
        self.nodes = []
        self.sinks = []
        self.n = 0
        self.draw_owner = {}

    def fresh(self, kind):
        self.n += 1
        return '%s%d' % (kind, self.n)

    def sink(self):
        w = self.w
        o = self.case.get('sink', {})
        ps = PacketSink(w.env, rec_arrivals=o.get('rec_arrivals', True), absolute_arrivals=o.get('absolute', True),
                        rec_waits=o.get('rec_waits', True), rec_flow_ids=o.get('by_flow', True),
                        debug=bool(o.get('debug')))
        name = self.fresh('sink')
        self.sinks.append((name, ps))
        return InTap(w, name, ps)

    def retable(self, name, demux, st):
        """Harness process: assigns the stage's later forwarding tables at their instants (one action each)."""
        ups = st.get('fib_updates')
        if not ups:
            return
        w, env = self.w, self.w.env
        t0 = self.case.get('t0', 0)

        def operator():
            for k, (t, fib) in enumerate(ups):
                d = t0 + t - env.now
                if d > 0:
                    yield env.timeout(d)
                demux.fib = dict((f, p) for f, p in fib)
                w.rec('EV', 'fib', name, k)
        env.process(operator())

    def chain(self, stages):
        """Build stages back to front; returns the device upstream should put() into."""
        if not stages:
            return self.sink()
        st = stages[0]
        rest = stages[1:]
        w, env = self.w, self.w.env
        t = st['t']
        name = self.fresh(t)
        if t in ('FlowDemux', 'FIBDemux'):
            outs = [self.chain(b) for b in st.get('branches', [])]
            dflt = self.chain(st['default']) if st.get('default') is not None else None
            tapped = [OutTap(w, '%s>%d' % (name, i), None, o) for i, o in enumerate(outs)]
            dtap = OutTap(w, name + '>d', None, dflt) if dflt is not None else None
            if t == 'FlowDemux':
                obj = FlowDemux(tapped, dtap)
            else:
                obj = FIBDemux(outs=tapped, fib=dict((f, p) for f, p in st.get('fib', [])), default_out=dtap)
                for f in st.get('ends', []):
                    obj.ends[f] = OutTap(w, '%s>e%s' % (name, f), None, self.sink())
                self.retable(name, obj, st)
            node = Node(name, t, obj, st)
            self.nodes.append(node)
            return InTap(w, name, obj)
        nxt = self.chain(rest)
        if t == 'Port':
            obj = Port(env, st['rate'], st.get('qlimit'), st.get('lb', False), name)
            obj.out = OutTap(w, name + '>', obj, nxt)
        elif t == 'RED':
            obj = REDPort(env, st['rate'], st['max'], st['min'], st['maxp'], name, st['qlimit'],
                          weight_factor=st.get('wf', 1), limit_bytes=st.get('lb', False))
            obj.out = OutTap(w, name + '>', obj, nxt)
        elif t == 'Wire':
            obj = Wire(env, Script(w, name + ':delay', st.get('delays', [1]), 1), st.get('loss'))
            w.pnames[obj.action] = name
            obj.out = OutTap(w, name + '>', obj, nxt)
        elif t == 'TB':
            obj = TokenBucket(env, st['rate'], st['bucket'], peak=st.get('peak'))
            obj.out = OutTap(w, name + '>', obj, nxt)
        elif t == 'TRTB':
            obj = TwoRateTokenBucket(env, st['cir'], st['cbs'], st.get('pir'), st.get('pbs'))
            obj.out = OutTap(w, name + '>', obj, nxt)
        elif t in SCHEDS:
            d = dict((f, v) for f, v in st['table'])
            if t == 'RR':
                obj = RR(env, st['rate'], [f for f, _ in st['table']])
            elif t == 'WRR':
                obj = WRR(env, st['rate'], d)
            elif st.get('fmap') is not None:
                fm = st['fmap']
                obj = SCHEDS[t](env, st['rate'], d, flow2class=lambda fid, fm=fm: fm[fid] if 0 <= fid < len(fm) else fid)
            else:
                obj = SCHEDS[t](env, st['rate'], d)
            obj.out = OutTap(w, name + '>', obj, nxt)
        elif t == 'SimpleSwitch':
            obj = SimplePacketSwitch(env, st['nports'], st['rate'], st['buffer'], element_id=name)
            for i, port in enumerate(obj.ports):
                port.out = OutTap(w, '%s>%d' % (name, i), obj, nxt if i == 0 else self.chain(rest))
        elif t == 'FairSwitch':
            obj = FairPacketSwitch(env, st['nports'], st['rate'], st['buffer'], dict((f, v) for f, v in st['weights']),
                                   st['server'], element_id=name)
            obj.demux.fib = dict((f, p) for f, p in st.get('fib', []))
            self.retable(name, obj.demux, st)
            for i, sch in enumerate(obj.ports):
                sch.out = OutTap(w, '%s>%d' % (name, i), obj, nxt if i == 0 else self.chain(rest))
        else:
            raise ValueError(t)
        node = Node(name, t, obj, st)
        self.nodes.append(node)
        return InTap(w, name, obj)


def build_pipeline(w, case):
    """Build the pipeline of a case in world w (installs the scripted random seams). Returns (builder, generators,
    restore) - call restore() when the run is over."""
    env = w.env
    saved = wire_mod.random
    saved_red = red_mod.random
    gens = []
    draws = []
    for st in _all_stages(case.get('stages', [])):
        if st.get('t') == 'Wire':
            draws += st.get('draws', [])
    sr = ScriptedRandom(w, 'loss', draws or [0.5])

    def uniform(a, b, sr=sr):
        v = sr.values[sr.i % len(sr.values)] if sr.values else 0.5
        sr.i += 1
        w.rec('DRAW', 'loss', v, w.pnames.get(env.active_process))
        return a + (b - a) * v
    sr.uniform = uniform
    wire_mod.random = sr
    rdraws = []
    for st in _all_stages(case.get('stages', [])):
        if st.get('t') == 'RED':
            rdraws += st.get('draws', [])
    red_mod.random = ScriptedRandom(w, 'red', rdraws or [0.5])

    def restore():
        wire_mod.random = saved
        red_mod.random = saved_red
    try:
        b = Builder(w, case)
        head = b.chain(case.get('stages', []))
        for s in case.get('sources', []):
            if s.get('kind') == 'gen':
                g = DistPacketGenerator(env, s['id'], Script(w, s['id'] + ':gap', s.get('gaps', []), 1, finite=True),
                                        Script(w, s['id'] + ':size', s.get('sizes', []) + [64], 64),
                                        initial_delay=s.get('init', 0), flow_id=s.get('flow', 0), rec_flow=True)
                g.out = OutTap(w, s['id'] + '>', g, head)
                gens.append((s, g))
            else:
                t0 = case.get('t0', 0)
                start_injector(w, head, [tuple([t0 + x[0]] + list(x[1:])) for x in s.get('workload', [])],
                               src=s.get('id', 'src'))
    except BaseException:
        restore()
        raise
    return b, gens, restore


def run(case):
    w = NetWorld(case.get('t0', 0))
    env = w.env
    b, gens, restore = build_pipeline(w, case)
    try:
        w.run(max_steps=600000 if case.get('long_haul') else 60000)
    finally:
        restore()
    viol, stats, nontrivial = check(w, case, b, gens)
    if case.get('twin'):
        # the same pipeline from library elements only: no taps, nobody holding on to a packet or reading a counter
        stats['compared_with_bare_twin'] = 1
        w2 = NetWorld(case.get('t0', 0), bare=True)
        b2, _g2, restore2 = build_pipeline(w2, case)
        try:
            w2.run(max_steps=600000 if case.get('long_haul') else 60000)
        finally:
            restore2()

        def view(bb):
            return [(nm, sorted((repr(f), list(ps.arrivals[f]), list(ps.waits[f]), ps.packets_received[f],
                                 ps.bytes_received[f]) for f in set(ps.packets_received) | set(ps.arrivals)))
                    for nm, ps in bb.sinks]
        if w2.raised:
            viol.append(('C08.T', 'the same pipeline without taps raised %r' % (w2.raised[0],)))
        else:
            va, vb = view(b), view(b2)
            if va != vb:
                k = next((i for i, (x, y) in enumerate(zip(va, vb)) if x != y), 0)
                viol.append(('C08.T', 'the pipeline works differently when nobody watches it (library elements only, no taps, '
                             'no packet kept alive by the harness): sink %s recorded %r with taps and %r without' %
                             (va[k][0] if k < len(va) else '?', str(va[k][1] if k < len(va) else None)[:300],
                              str(vb[k][1] if k < len(vb) else None)[:300])))
    res = {'viol': viol, 'digest': digest_of(w.log), 'nontrivial': nontrivial, 'stats': stats,
           'simtime': float(env.now), 'steps': w.steps}
    if case.get('_excerpt'):
        res['excerpt'] = [repr(r) for r in w.log[-80:]]
    return res


def _all_stages(stages):
    for st in stages or []:
        yield st
        for br in st.get('branches') or []:
            yield from _all_stages(br)
        if st.get('default'):
            yield from _all_stages(st['default'])


# ------------------------------------------------------------------------------------------- checking

def _fib_at(node, evs):
    """Returns f(G) -> forwarding table in force for a packet handed in by action G."""
    tabs = [(-1, dict((f, p) for f, p in node.spec.get('fib', [])))]
    ups = node.spec.get('fib_updates') or []
    for g, k in evs.get(node.name, []):
        tabs.append((g, dict((f, p) for f, p in ups[k][1])))

    def at(G):
        cur = tabs[0][1]
        for g, tab in tabs:
            if g < G:
                cur = tab
        return cur
    return at


def check(w, case, b, gens):
    viol, stats = [], {}
    evs = {}
    for r in w.log:
        if r[0] == 'EV' and r[3] == 'fib':
            evs.setdefault(r[4], []).append((r[1], r[5]))
    ins = {}      # node name -> list of (G, t, pkt, fields)
    outs = {}     # node name -> list of (G, t, pkt, fields, tapname)
    draws = {}
    sink_in = {}
    for r in w.log:
        tag = r[0]
        if tag == 'IN':
            ins.setdefault(r[3], []).append((r[1], r[2], r[4], r[5]))
        elif tag == 'OUT':
            base = r[3].split('>')[0]
            outs.setdefault(base, []).append((r[1], r[2], r[4], r[5], r[3]))
        elif tag == 'DRAW':
            draws.setdefault(r[3] if r[5] is None else r[5] + ':' + r[3], []).append(r[4])
        elif tag == 'ERR':
            viol.append(('C08.4/%s' % (r[4][1] if isinstance(r[4], tuple) and len(r[4]) > 1 else 'exc'),
                         'the run raised %r' % (r[4],)))
    if not w.quiescent:
        viol.append(('C08.4/hang', 'the simulation did not run out of events'))
    total = sum(len(v) for v in ins.values())
    for node in b.nodes:
        nm, t = node.name, node.kind
        stats['elem_' + t] = 1
        if node.spec.get('fmap') is not None:
            stats['sched_many_to_one'] = 1
        if t == 'RED' and node.obj.packets_dropped:
            stats['red_drop'] = 1
        I = ins.get(nm, [])
        O = outs.get(nm, [])
        entered = {}
        for g, tt, pkt, f in I:
            entered.setdefault(pkt, []).append((g, f))
        seen = {}
        for g, tt, pkt, f, tap in O:
            if pkt not in entered:
                viol.append(('C08.1', '%s emitted %s which never entered it (invented or copied)' % (nm, pkt)))
                continue
            seen[pkt] = seen.get(pkt, 0) + 1
            if seen[pkt] > len(entered[pkt]):
                viol.append(('C08.1', '%s forwarded %s more often than it received it' % (nm, pkt)))
            if f != entered[pkt][0][1]:
                viol.append(('C08.1', '%s altered the identifying fields of %s: %r -> %r' % (nm, pkt, entered[pkt][0][1], f)))
            if g < entered[pkt][0][0]:
                viol.append(('C08.1', '%s forwarded %s before receiving it' % (nm, pkt)))
        missing = [pkt for pkt in entered for _ in range(len(entered[pkt]) - seen.get(pkt, 0))]
        # documented discards
        allowed = 0
        why = ''
        if t in ('Port', 'RED'):
            allowed = node.obj.packets_dropped
            why = 'packets_dropped=%d' % allowed
            if allowed:
                stats['tail_drop'] = 1
        elif t == 'Wire':
            p = node.spec.get('loss')
            ds = draws.get(nm + ':loss', [])
            allowed = sum(1 for u in ds if p and u < p)
            why = '%d loss draws below %r' % (allowed, p)
            if allowed:
                stats['wire_loss'] = 1
        elif t == 'FlowDemux':
            nb = len(node.spec.get('branches', []))
            allowed = sum(1 for g, tt, pkt, f in I if not (0 <= f[1] < nb)) if node.spec.get('default') is None else 0
            why = '%d packets of flows without an output and no default' % allowed
            stats['fan_out'] = 1
        elif t == 'FIBDemux':
            fib = _fib_at(node, evs)
            nb = len(node.spec.get('branches', []))
            ends = set(node.spec.get('ends', []))
            allowed = sum(1 for g, tt, pkt, f in I if f[1] not in ends and not (f[1] in fib(g) and 0 <= fib(g)[f[1]] < nb)) \
                if node.spec.get('default') is None else 0
            if ends:
                stats['end_devices_at_demux'] = 1
            if evs.get(nm):
                stats['fib_replaced'] = 1
            why = '%d packets of unknown flows and no default' % allowed
            stats['fan_out'] = 1
        elif t == 'SimpleSwitch':
            allowed = sum(p.packets_dropped for p in node.obj.ports) + \
                sum(1 for g, tt, pkt, f in I if not (0 <= f[1] < len(node.obj.ports)))
            why = 'port drops + flows without a port = %d' % allowed
        elif t == 'FairSwitch':
            fib = _fib_at(node, evs)
            allowed = sum(p.packets_dropped for p in node.obj.egress_ports) + \
                sum(1 for g, tt, pkt, f in I if not (f[1] in fib(g) and 0 <= fib(g)[f[1]] < len(node.obj.ports)))
            if evs.get(nm):
                stats['fib_replaced'] = 1
            why = 'egress drops + unrouted flows = %d' % allowed
        if allowed and t in ('FlowDemux', 'FIBDemux', 'SimpleSwitch', 'FairSwitch') and 'flows' in why:
            stats['no_route'] = 1
        if w.quiescent and not any(v[0].startswith('C08.4') for v in viol):
            if len(missing) != allowed:
                viol.append(('C08.2', '%s (%s): %d packets entered, %d left, %d unaccounted for (%s) while its documented rule '
                             'explains %d (%s)' % (nm, t, len(I), len(O), len(missing), missing[:4], allowed, why)))
            held = _held(node)
            if held:
                viol.append(('C08.2', '%s still holds %d packet(s) after the simulation ran out of events' % (nm, held)))
        # a byte-limited port may discard a packet only when it does not fit (the documented rule itself)
        if t == 'Port' and node.spec.get('lb') and node.spec.get('qlimit') is not None and w.quiescent and \
                not any(v[0].startswith('C08.4') for v in viol):
            left = {}
            for g, tt, pkt, f, tap in O:
                left.setdefault(pkt, []).append(g)
            evs2 = []
            taken = {}
            for g, tt, pkt, f in I:
                k = taken.get(pkt, 0)
                taken[pkt] = k + 1
                gone = left.get(pkt, [])
                evs2.append((g, 'in', f[3], pkt, gone[k] if k < len(gone) else None))
            for g, tt, pkt, f, tap in O:
                evs2.append((g, 'out', f[3], pkt, None))
            evs2.sort(key=lambda e: e[0])
            heldb = 0
            for g, what, size, pkt, outg in evs2:
                if what == 'out':
                    heldb -= size
                    continue
                fits = heldb + size <= node.spec['qlimit']
                if outg is not None:
                    heldb += size
                elif fits:
                    viol.append(('C08.2', '%s (byte limit %r) discarded %s (%d bytes) although it held only %d bytes' %
                                 (nm, node.spec['qlimit'], pkt, size, heldb)))
                    break
        # per-flow order
        pos = {}
        for k, (g, tt, pkt, f) in enumerate(I):
            pos.setdefault(pkt, k)
        last = {}
        for g, tt, pkt, f, tap in O:
            fl = (f[1], tap)         # per output: a flow whose route was replaced may overtake itself across outputs
            if pkt in pos:
                if fl in last and pos[pkt] < last[fl][0]:
                    viol.append(('C08.3', '%s: packet %s of flow %r left after %s although it entered earlier' %
                                 (nm, pkt, fl[0], last[fl][1])))
                    break
                last[fl] = (pos[pkt], pkt)
    if len(case.get('sources', [])) >= 2:
        stats['fan_in'] = 1
    # generators
    for s, g in gens:
        stats['generator'] = 1
        O = outs.get(s['id'], [])
        t = case.get('t0', 0) + s.get('init', 0)
        gaps, sizes = s.get('gaps', []), s.get('sizes', []) + [64]
        if len(O) != len(gaps):
            viol.append(('C08.5', 'generator %s emitted %d packets for %d inter-arrival draws' % (s['id'], len(O), len(gaps))))
        for n, (gg, tt, pkt, f, tap) in enumerate(O[:len(gaps)]):
            t = t + gaps[n]
            want = (n + 1, s.get('flow', 0), s['id'], sizes[n % len(sizes)], t)
            if (f[0], f[1], f[2], f[3], f[4]) != want or tt != t:
                viol.append(('C08.5', 'generator %s packet #%d: (id, flow, src, size, time)=%r emitted at %r; expected %r at %r'
                             % (s['id'], n + 1, f[:5], tt, want, t)))
                break
        if g.packets_send != len(O):
            viol.append(('C08.5', 'generator %s reports packets_send=%d, emitted %d' % (s['id'], g.packets_send, len(O))))
    # sinks
    o = case.get('sink', {})
    for name, ps in b.sinks:
        I = ins.get(name, [])
        by = {}
        for g, tt, pkt, f in I:
            idx = f[1] if o.get('by_flow', True) else f[2]
            by.setdefault(idx, []).append((tt, f))
        if not o.get('by_flow', True):
            stats['sink_per_src'] = 1
        for idx, lst in by.items():
            if ps.packets_received[idx] != len(lst) or ps.bytes_received[idx] != sum(f[3] for _, f in lst):
                viol.append(('C08.5', 'sink %s index %r: packets/bytes_received = %r/%r, delivered %d packets / %d bytes' %
                             (name, idx, ps.packets_received[idx], ps.bytes_received[idx], len(lst), sum(f[3] for _, f in lst))))
            if o.get('rec_arrivals', True):
                if o.get('absolute', True):
                    want = [tt for tt, _ in lst]
                else:
                    stats['sink_interarrival'] = 1
                    want, prev = [], 0.0
                    for tt, _ in lst:
                        want.append(tt - prev)
                        prev = tt
                got = list(ps.arrivals[idx])
                if not o.get('absolute', True) and want and len(got) in (len(want), len(want) - 1):
                    # the statement does not say what the 'inter-arrival time' of a flow's first packet is measured
                    # from (the library: from 0.0): that one sample is not constrained
                    got = [want[0]] + got[len(got) - len(want) + 1:]
                if got != want:
                    viol.append(('C08.5', 'sink %s index %r: arrivals %r, expected %r' % (name, idx, list(ps.arrivals[idx])[:6], want[:6])))
            if o.get('rec_waits', True):
                want = [tt - f[4] for tt, f in lst]
                if list(ps.waits[idx]) != want:
                    viol.append(('C08.5', 'sink %s index %r: waits %r, expected %r' % (name, idx, list(ps.waits[idx])[:6], want[:6])))
        for idx in list(ps.packets_received.keys()):
            if idx not in by and ps.packets_received[idx]:
                viol.append(('C08.5', 'sink %s counts %d packets for index %r that were never delivered to it' %
                             (name, ps.packets_received[idx], idx)))
    if case.get('t0'):
        stats['tick_clock'] = 1
    if case.get('fast_link'):
        stats['fast_link'] = 1
    nontrivial = total >= 5 and len(b.nodes) >= 2
    return viol, stats, nontrivial


def _held(node):
    o, t = node.obj, node.kind
    try:
        if t in ('Port', 'RED', 'Wire', 'TB', 'TRTB'):
            return len(o.store.items)
        if t in SCHEDS:
            return o.total_packets
        if t == 'SimpleSwitch':
            return sum(len(p.store.items) for p in o.ports)
        if t == 'FairSwitch':
            return sum(len(p.store.items) for p in o.egress_ports) + sum(s.total_packets for s in o.ports)
    except Exception:
        return 0
    return 0
