"""C07 - containers and stores: bounded, conservative, ordered, never strand a request (DESIGN.md C07)."""
from ..core import digest_of
from ..rprog import gen_store_case, run_case, mk_filter, mk_item, item_uid

ID = 'C07'
SHRINK_KEEP = ('item',)   # item uids stay unique while a failing history is minimised
TIERS = {'quick': {'runs': 36000, 'budget_s': 30}, 'thorough': {'runs': 1000000, 'budget_s': 600}}
RULE = ('generated histories of put/get with amounts / unique items / priorities / filters, patience (request | timeout '
        'then cancel), with-blocks, external interrupts, on Container / Store / PriorityStore / FilterStore with '
        'capacities 1-4 or unbounded and initial levels; non-trivial = at least one request had to wait; distinct = '
        'history digest')
REAL = ['onl.sim.resources.container.*', 'onl.sim.resources.store.*', 'onl.sim.resources.base.*', 'onl.sim kernel']
STUBS = ['producer/consumer and interrupter process bodies (harness)']
ASSUMPTIONS = ['grants are observed as trigger records of the request events; the item of a granted get is read from '
               'the request event', 'items are unique, amounts are integers or dyadic so level arithmetic is exact']
PROBES = ['two_resources_joined_by_a_relay', 'packet_items_with_equal_ids', 'tiny_amounts', 'head_cancelled_with_satisfiable_follower', 'container_hits_zero', 'container_hits_capacity', 'priority_tie',
          'filter_matches_nothing', 'filter_overtakes', 'cancel', 'interrupt_while_waiting', 'boundary_with_pending',
          'store_full']


def gen(rng, tier):
    if rng.random() < 0.04:
        pool = [0, 0, 0.25, 0.5, 1, 2]
        return {'engine': 'R', 'sub': 'relay', 'n': rng.randint(1, 12), 'cap1': rng.choice([None, 1, 2, 3]),
                'cap2': rng.choice([None, 1, 1, 2]), 'credit': rng.random() < 0.3, 'relays': rng.choice([1, 1, 2]),
                'gaps': [rng.choice(pool) for _ in range(4)], 'pause': [rng.choice(pool) for _ in range(3)],
                't0': rng.choice([0, 5])}
    case = gen_store_case(rng, tier)
    if rng.random() < 1 / 250:
        # a crowd: well over a thousand getters waiting on an empty container when one large delivery arrives
        n = rng.randint(1100, 1400)
        crowd = [{'id': 'x%d' % j, 'ops': [{'op': 'get', 'amount': 1, 'patience': None, 'style': 'manual', 'on_intr': 'leave',
                                            'exit_exc': False}]} for j in range(n)]
        crowd.append({'id': 'xp', 'ops': [{'op': 'sleep', 'd': 1}, {'op': 'put', 'amount': n - rng.choice([0, 0, 7]),
                                                                     'patience': None, 'style': 'manual', 'on_intr': 'leave',
                                                                     'exit_exc': False}]})
        case = {'engine': 'R', 'kind': 'Container', 'capacity': None, 'init': 0, 't0': case.get('t0', 0), 'procs': crowd,
                'interrupts': [], 'order': [c['id'] for c in crowd], 'crowd': True}
    return case


def _match(spec, uid):
    """The filter of a FilterStore get, evaluated on the recorded identity of an item."""
    if spec is None or spec == 'any':
        return True
    if spec == 'none':
        return False
    if spec in ('isint', 'isfloat', 'isbool'):
        return isinstance(uid, tuple) and len(uid) == 2 and uid[0] == 'NUM' and uid[1] == spec[2:]
    if isinstance(spec, (list, tuple)):
        return isinstance(uid, tuple) and len(uid) == 3 and uid[0] == 'PKT' and uid[2] == spec[1]
    if isinstance(uid, tuple) and len(uid) == 3 and uid[0] == 'PKT':
        return uid[1] == spec
    if isinstance(uid, tuple) and len(uid) == 3 and uid[0] == 'PI':
        return isinstance(uid[2], tuple) and len(uid[2]) >= 1 and uid[2][0] == spec
    return isinstance(uid, tuple) and len(uid) >= 1 and uid[0] == spec


def _pkey(uid):
    # priority of a stored item: PriorityItem -> its priority; bare tuple -> the tuple itself
    if isinstance(uid, tuple) and uid and uid[0] == 'PI':
        return (uid[1],)
    return uid


def check(w):
    log = w.env.log
    kind = w.kind
    cap = w.case.get('capacity')
    cap = float('inf') if cap is None else cap
    viol = []
    stats = {}
    gv = {}
    for r in log:
        if r[0] == 'GV':
            gv[r[4]] = r[5]
    created = {}     # rid -> dict(kind, args, G0)
    puts, gets = [], []
    granted = {}
    cancelled = {}
    level = w.case.get('init', 0)
    items = []       # expected items (uids) in acceptance order
    delivered = set()
    pending_q0 = None
    nontrivial = False

    def pending(lst):
        return [x for x in lst if x not in granted and x not in cancelled]

    def ensure(rid, kind_, args, g0):
        if rid not in created:
            created[rid] = {'kind': kind_, 'args': args, 'G0': g0}
            (puts if kind_ == 'put' else gets).append(rid)

    for r in log:
        tag = r[0]
        if tag == 'Q0':
            pending_q0 = (r[1], r[4], r[5])
        elif tag == 'T' and r[3].startswith('req:'):
            rid = r[2]
            g = r[1]
            if rid not in created:
                if pending_q0 is None:
                    continue
                g0, pid, opi = pending_q0
                op = _op(w.case, pid, opi)
                if op.get('op') not in ('put', 'get'):
                    continue
                if kind == 'Container':
                    args = op.get('amount')
                elif op['op'] == 'put':
                    args = item_uid(mk_item(op['item']))
                else:
                    args = op.get('filter') or 'any' if kind == 'FilterStore' else None
                ensure(rid, op['op'], args, g0)
            c = created[rid]
            if rid in granted:
                viol.append(('C07.2', 'request %s was granted twice' % rid))
                continue
            if rid in cancelled:
                viol.append(('C07.4', 'cancelled request %s was granted' % rid))
            granted[rid] = g
            same = puts if c['kind'] == 'put' else gets
            if not (kind == 'FilterStore' and c['kind'] == 'get'):
                for other in same:
                    if other == rid:
                        break
                    if other not in granted and other not in cancelled:
                        viol.append(('C07.4', '%s %s was granted at t=%r ahead of the older pending %s' %
                                     (c['kind'], rid, r[4], other)))
                        break
            else:
                for other in same:
                    if other == rid:
                        break
                    if other not in granted and other not in cancelled:
                        stats['filter_overtakes'] = 1
            if kind == 'Container':
                if c['kind'] == 'put':
                    level += c['args']
                else:
                    level -= c['args']
                if level < 0 or level > cap:
                    viol.append(('C07.1', 'granting %s %s(%r) at t=%r takes the level to %r outside [0, %r]' %
                                 (c['kind'], rid, c['args'], r[4], level, cap)))
                if level == 0:
                    stats['container_hits_zero'] = 1
                if level == cap:
                    stats['container_hits_capacity'] = 1
            elif c['kind'] == 'put':
                items.append(c['args'])
                if len(items) > cap:
                    viol.append(('C07.2', 'store of capacity %r accepted item %r while holding %d items' %
                                 (cap, c['args'], len(items) - 1)))
                if len(items) == cap:
                    stats['store_full'] = 1
            else:
                got = gv.get(rid, '<missing>')
                if got not in items:
                    if got in delivered:
                        viol.append(('C07.2', 'item %r was handed out twice (second time to %s)' % (got, rid)))
                    else:
                        viol.append(('C07.2', 'get %s received %r which is not an accepted, undelivered item (held: %r)'
                                     % (rid, got, items)))
                    continue
                if kind == 'Store':
                    if items[0] != got:
                        viol.append(('C07.3', 'get %s received %r but the oldest item is %r' % (rid, got, items[0])))
                elif kind == 'PriorityStore':
                    m = min(_pkey(x) for x in items)
                    if _pkey(got) != m:
                        viol.append(('C07.3', 'get %s received %r although a smaller item is held (%r)' % (rid, got, items)))
                    if sum(1 for x in items if _pkey(x) == m) > 1:
                        stats['priority_tie'] = 1
                else:
                    first = next((x for x in items if _match(c['args'], x)), None)
                    if first != got:
                        viol.append(('C07.3', 'filtered get %s (%r) received %r; first match in insertion order is %r' %
                                     (rid, c['args'], got, first)))
                items.remove(got)
                delivered.add(got)
        elif tag == 'Q':
            _, g, now, st, pid, opi, rid, k, args, trig = r
            ensure(rid, k, args, pending_q0[0] if pending_q0 else g)
            pending_q0 = None
            if not trig:
                nontrivial = True
        elif tag == 'U':
            _, g, now, st, pid, opi, rid, what, before, after, exc = r
            if exc is not None:
                viol.append(('C07.6', '%s of %s raised %r' % (what, rid, exc)))
        elif tag == 'U0':
            _, g, now, st, pid, opi, rid, trig = r
            if not trig and rid not in granted:
                stats['cancel'] = 1
                c = created.get(rid)
                if c is not None:
                    same = puts if c['kind'] == 'put' else gets
                    pend = pending(same)
                    if pend and pend[0] == rid and len(pend) > 1:
                        stats['head_cancelled_with_satisfiable_follower'] = \
                            stats.get('head_cancelled_with_satisfiable_follower', 0) or \
                            int(_satisfiable(kind, created[pend[1]], level, items, cap))
                cancelled[rid] = g
        elif tag == 'S':
            if r[7] == 'intr' and r[9] == 'wait':
                stats['interrupt_while_waiting'] = 1
        elif tag in ('SN', 'BD'):
            snap = r[4]
            if kind == 'Container':
                _, lv, pq, gq = snap
                if lv != level:
                    viol.append(('C07.1', 'level is %r at t=%r; initial level plus granted puts minus granted gets is %r'
                                 % (lv, r[2], level)))
                if lv < 0 or lv > cap:
                    viol.append(('C07.1', 'level %r outside [0, %r]' % (lv, cap)))
            else:
                _, its, pq, gq = snap
                if len(its) > cap:
                    viol.append(('C07.2', 'store holds %d items, capacity %r' % (len(its), cap)))
                if (kind != 'PriorityStore' and list(its) != items) or sorted(map(repr, its)) != sorted(map(repr, items)):
                    viol.append(('C07.2', 'store holds %r at t=%r; accepted minus delivered is %r' % (its, r[2], items)))
            pp, pg = pending(puts), pending(gets)
            if sorted(pq) != sorted(pp) or sorted(gq) != sorted(pg):
                viol.append(('C07.5', 'pending requests by the books: puts %r gets %r; queues of the resource: puts %r '
                             'gets %r' % (pp, pg, pq, gq)))
            if tag == 'BD':
                if pp or pg:
                    stats['boundary_with_pending'] = 1
                if pp and _satisfiable(kind, created[pp[0]], level, items, cap):
                    viol.append(('C07.5', 'clock about to advance from t=%r although the oldest pending put %s (%r) can '
                                 'be satisfied (level/items %r, capacity %r)' %
                                 (r[2], pp[0], created[pp[0]]['args'], level if kind == 'Container' else items, cap)))
                if kind == 'FilterStore':
                    for q in pg:
                        if _satisfiable(kind, created[q], level, items, cap):
                            viol.append(('C07.5', 'clock about to advance from t=%r although pending filtered get %s (%r) '
                                         'matches a held item %r' % (r[2], q, created[q]['args'], items)))
                            break
                        if created[q]['args'] == 'none':
                            stats['filter_matches_nothing'] = 1
                elif pg and _satisfiable(kind, created[pg[0]], level, items, cap):
                    viol.append(('C07.5', 'clock about to advance from t=%r although the oldest pending get %s (%r) can '
                                 'be satisfied (level/items %r)' %
                                 (r[2], pg[0], created[pg[0]]['args'], level if kind == 'Container' else items)))
    if any(isinstance(c['args'], tuple) and c['args'] and c['args'][0] == 'PKT' for c in created.values()):
        stats['packet_items_with_equal_ids'] = 1
    if kind == 'Container' and any(isinstance(c['args'], float) and c['args'] < 1e-6 for c in created.values()):
        stats['tiny_amounts'] = 1
    return viol, stats, nontrivial


def _satisfiable(kind, c, level, items, cap):
    if kind == 'Container':
        if c['kind'] == 'put':
            return level + c['args'] <= cap      # what would be stored must not exceed the capacity
        return level >= c['args']
    if c['kind'] == 'put':
        return len(items) < cap
    if kind == 'FilterStore':
        return any(_match(c['args'], x) for x in items)
    return len(items) > 0


def _op(case, pid, opi):
    for p in case.get('procs', []):
        if p['id'] == pid:
            ops = p.get('ops', [])
            if opi < len(ops):
                return ops[opi]
    return {}


def valid(case):
    if case.get('sub') == 'relay':
        return case.get('n', 0) >= 1 and len(case.get('gaps') or []) >= 1 and len(case.get('pause') or []) >= 1 and \
            all(x >= 0 for x in case['gaps'] + case['pause']) and case.get('relays', 1) >= 1
    return True


def run_relay(case):
    """Two stores (or a container feeding a store) in one simulation, joined by a relay process: what one resource does
    must not depend on what happens at the other. Every item put into the first must reach the consumer of the second,
    in order, and nobody may be left waiting while something is there for him."""
    from ..tap import TapEnvironment, EmptySchedule, StopSimulation
    from onl.sim import Store, Container
    env = TapEnvironment(case.get('t0', 0))
    env.tap_enabled = False
    n = case['n']
    inbox = Store(env, capacity=case.get('cap1') or float('inf'))
    outbox = Store(env, capacity=case.get('cap2') or float('inf'))
    credit = Container(env, init=0) if case.get('credit') else None
    got, log = [], []

    def producer():
        for j in range(n):
            d = case['gaps'][j % len(case['gaps'])]
            if d:
                yield env.timeout(d)
            yield inbox.put(j)
            if credit is not None:
                yield credit.put(1)

    def relay():
        while True:
            if credit is not None:
                yield credit.get(1)
            item = yield inbox.get()
            log.append(('relay', env.now, item))
            yield outbox.put(item)

    def consumer():
        while True:
            item = yield outbox.get()
            got.append(item)
            d = case['pause'][len(got) % len(case['pause'])]
            if d:
                yield env.timeout(d)
    env.process(producer())
    for _ in range(case.get('relays', 1)):
        env.process(relay())
    env.process(consumer())
    steps, raised = 0, []
    while steps < 20000:
        try:
            env.step()
        except EmptySchedule:
            break
        except StopSimulation:
            pass
        except Exception as e:  # noqa
            raised.append(repr(e))
            break
        steps += 1
    viol = []
    for e in raised:
        viol.append(('C07.6', 'the run raised %s' % e))
    if steps < 20000 and not raised:
        if sorted(got) != list(range(n)):
            viol.append(('C07.5', 'two stores joined by a relay: %d items were put into the first store, the consumer of the '
                         'second received %d (first store holds %r, second holds %r) and the simulation ran out of events' %
                         (n, len(got), list(inbox.items)[:5], list(outbox.items)[:5])))
        elif case.get('relays', 1) == 1 and got != list(range(n)):
            viol.append(('C07.3', 'items left the second store in the order %r' % (got[:12],)))
    return {'viol': viol, 'digest': digest_of((tuple(got), tuple(log))), 'nontrivial': n >= 3,
            'stats': {'two_resources_joined_by_a_relay': 1}, 'simtime': float(env.now) - float(case.get('t0', 0)), 'steps': steps}


def run(case):
    if case.get('sub') == 'relay':
        return run_relay(case)
    w = run_case(case, max_steps=20000 if case.get("crowd") else 6000)
    viol, stats, nontrivial = check(w)
    for e in w.raised:
        viol.append(('C07.6', 'the run raised %r' % (e,)))
    res = {'viol': viol, 'digest': digest_of(w.env.log), 'nontrivial': nontrivial, 'stats': stats,
           'simtime': float(w.env.now) - float(case.get('t0', 0)), 'steps': w.steps}
    if case.get('_excerpt'):
        res['excerpt'] = [repr(r) for r in w.env.log[-80:]]
    return res
