"""C05 - condition events fire exactly when their predicate first holds, with exact value (DESIGN.md C05)."""
from ..core import digest_of, san
from ..kprog import Prof, gen_program, setup_world, drive, excerpt
from . import c02

ID = 'C05'
TIERS = {'quick': {'runs': 20000, 'budget_s': 30}, 'thorough': {'runs': 1200000, 'budget_s': 600}}
RULE = ('generated programs whose processes wait on condition trees (depth <=3; all_of, any_of, &, |) over fresh '
        'timeouts, shared events succeeded/failed by other processes, and processes; empty operand lists, operands '
        'already processed at construction, the same leaf twice, foreign-environment operands; non-trivial = some '
        'condition with >=2 operands reached a decision; distinct = history digest')
REAL = ['onl.sim.events.Condition/AllOf/AnyOf/ConditionValue', 'onl.sim.core.Environment']
STUBS = c02.STUBS
ASSUMPTIONS = ['a nested node nobody ever waits on is required to trigger only while all its ancestors are untriggered '
               '(afterwards nobody can tell); a nested node somebody waits on, at any time, is held to the full statement',
               'operand history (step and outcome of each operand) is taken from the observed run']
PROBES = ['operand_between_trigger_and_processing', 'nested_inner_decided_at_construction', 'failure_after_satisfaction',
          'failure_before_satisfaction', 'empty_operands', 'duplicate_leaf', 'foreign_refused', 'depth3',
          'late_failure_escapes', 'nested_node_waited_on', 'nested_node_awaited_after_detachment', 'condition_over_hundreds_of_operands']


def _late_waiter_only(case, vs):
    return bool(vs) and all(cl == 'C05.1/late-waiter' for cl, _ in vs)


# key of an `open:` line in known_findings.txt -> does this (case, violations) pair show exactly that finding?
KNOWN = {'C05-nested-condition-first-awaited-after-parent-fired': _late_waiter_only}


def gen(rng, tier):
    big = tier == 'thorough' and rng.random() < 0.3
    prof = Prof(rng)
    prof.pool = rng.choice(['GRID', 'GRID', 'INTS', 'FLOAT'])
    prof.max_procs = rng.choice([2, 3, 5]) + (2 if big else 0)
    prof.max_ops = rng.choice([2, 4, 6]) + (3 if big else 0)
    prof.max_shared = rng.choice([1, 2, 4])
    prof.depth = rng.choice([0, 1, 2, 2])
    prof.foreign = rng.choice([0, 0, 0.03])
    w = prof.w
    w['cond'] = rng.choice([4, 6])
    w['timeout'] = rng.choice([2, 3])
    w['wait'] = rng.choice([0, 1])
    w['succeed'] = rng.choice([2, 3, 4])
    w['fail'] = rng.choice([0, 1, 2, 3])
    w['spawn'] = rng.choice([0, 1])
    w['join'] = rng.choice([0, 1])
    w['raise'] = rng.choice([0, 1])
    w['ret'] = rng.choice([0, 1])
    prof.handlers = rng.choice([['cont', 'ret', 'other', 'raise', 'none'], ['cont'], ['cont', 'none']])
    if rng.random() < 0.25:
        # a waiter is interrupted while it waits for a condition and then waits for the same condition again
        w['interrupt'] = rng.choice([1, 2])
        prof.handlers = ['rewait', 'rewait', 'cont', 'ret']
    if rng.random() < 0.4:
        # nested conditions are events of their own: someone waits on an inner node as well as (or after) the root
        w['subwait'] = rng.choice([1, 2, 3])
    case = gen_program(rng, prof)
    if rng.random() < 1 / 250:
        # a barrier over several hundred operands (and the same barrier nested under a guard)
        n = rng.randint(258, 420)
        pool = [0, 0.25, 0.5, 1, 1, 2, 3]
        tree = {'t': 'all', 'kids': [{'leaf': 'timeout', 'd': rng.choice(pool), 'v': 5000 + j} for j in range(n)]}
        if rng.random() < 0.5:
            tree = {'t': 'any', 'kids': [tree, {'leaf': 'timeout', 'd': 50, 'v': 4999}]}
        case['setup'].append({'k': 'proc', 'id': 'pb', 'ops': [{'op': 'cond', 'tree': tree, 'h': 'cont'}]})
        case['big_barrier'] = True
    return case


def _has_foreign(tree):
    if 'leaf' in tree:
        return tree['leaf'] == 'foreign'
    return any(_has_foreign(k) for k in tree.get('kids', []))


def _cond_ops(case):
    out = {}

    def walk(ops, pid):
        for i, op in enumerate(ops):
            if op.get('op') == 'cond':
                out['%s.%d' % (pid, i)] = op['tree']
            elif op.get('op') == 'spawn':
                walk(op.get('ops', []), op['id'])
    for it in case.get('setup', []):
        if it.get('k') == 'proc':
            walk(it.get('ops', []), it['id'])
    return out


def check(log, case, cvs_final):
    viol = []
    stats = {}
    nodes = {}       # label -> dict(mode, kids, pre, K0, K, step, pid)
    k0 = {}
    P = {}           # label -> (G, step, ok, val, now)
    T = {}           # label -> list of (G, step)
    parent = {}
    refused = set()
    yielded = set()
    for r in log:
        tag = r[0]
        if tag == 'K0':
            k0[r[4]] = r[1]
        elif tag == 'K':
            _, g, now, st, label, mode, kids, pre, pid = r
            nodes[label] = {'mode': mode, 'kids': kids, 'pre': pre, 'K0': k0.get(label, g - 1), 'K': g, 'st': st,
                            'pid': pid}
            for k in kids:
                if k in nodes and label not in parent.setdefault(k, []):
                    parent[k].append(label)
        elif tag == 'P':
            if r[2] not in P:
                P[r[2]] = (r[1], r[4], r[5], r[6], r[3])
        elif tag == 'T':
            T.setdefault(r[2], []).append((r[1], r[7]))
        elif tag == 'Y':
            yielded.add(r[6])
            if '/' in r[6]:
                stats['nested_node_waited_on'] = 1
        elif tag == 'O' and r[6] == 'cond-refused':
            refused.add('%s.%d' % (r[4], r[5]))
    # order of all P records for simulation
    Pseq = sorted(((v[0], lb) for lb, v in P.items()))
    decided = {}     # label -> (kind, g_decision, step, deciding kid, 'construct'|'later')
    for label, n in nodes.items():
        kids, mode = n['kids'], n['mode']
        if len(kids) == 0:
            stats['empty_operands'] = 1
        if len(set(kids)) < len(kids):
            stats['duplicate_leaf'] = 1
        count = 0
        dec = None
        if not kids:
            dec = ('ok', n['K'], n['st'], None, 'construct')
        else:
            for kid, pre in zip(kids, n['pre']):
                if dec is not None:
                    break
                if pre:
                    count += 1
                    pk = P.get(kid)
                    kid_ok = pk[2] if pk is not None else True
                    if kid_ok is False:
                        dec = ('fail', n['K'], n['st'], kid, 'construct')
                    elif (mode == 'all' and count == len(kids)) or (mode == 'any' and count >= 1):
                        dec = ('ok', n['K'], n['st'], kid, 'construct')
                        if kid in nodes:
                            stats['nested_inner_decided_at_construction'] = 1
            if dec is None:
                for g, lb in Pseq:
                    if g < n['K'] or dec is not None:
                        continue
                    for kid, pre in zip(kids, n['pre']):
                        if kid != lb or pre or dec is not None:
                            continue
                        count += 1
                        if P[lb][2] is False:
                            dec = ('fail', g, P[lb][1], kid, 'later')
                        elif (mode == 'all' and count == len(kids)) or (mode == 'any' and count >= 1):
                            dec = ('ok', g, P[lb][1], kid, 'later')
        decided[label] = dec
        if dec is not None and dec[4] == 'construct' and '/' in label:
            stats['nested_inner_decided_at_construction'] = 1

    def ancestors(label):
        seen, todo = set(), list(parent.get(label, []))
        while todo:
            a = todo.pop()
            if a in seen:
                continue
            seen.add(a)
            yield a
            todo.extend(parent.get(a, []))

    # Known finding (see known_findings.txt): when a condition is processed it detaches every nested condition that
    # nobody is waiting for at that moment (the pinned test-suite demands it); such a node can never trigger any more,
    # and somebody who starts waiting for it afterwards is stranded. `cut[label]` = action at which that happened.
    waits = {}       # label -> list of [g_from, g_to) during which some process waits for it
    open_w = {}
    for r in log:
        if r[0] == 'Y':
            open_w[(r[4], r[5], r[6])] = r[1]
        elif r[0] == 'R' and (r[4], r[5], r[6]) in open_w:
            waits.setdefault(r[6], []).append((open_w.pop((r[4], r[5], r[6])), r[1]))
    for (pid_, i_, lb_), g0 in open_w.items():
        waits.setdefault(lb_, []).append((g0, float('inf')))
    cut = {}

    def watched(lb, g):
        if any(a < g <= b for a, b in waits.get(lb, [])):
            return True
        for q in parent.get(lb, []):
            if nodes[q]['K'] > g or (q in P and P[q][0] <= g) or cut.get(q, float('inf')) <= g:
                continue                      # not built yet / its own checks are gone (processed, or swept away)
            return True
        return False

    def sweep(root, g):
        """The processed condition `root` takes its checks off its operands; every nested condition left without a
        watcher loses its checks in turn (and is looked at again whenever another of its watchers goes)."""
        visited, seen = [root], {root}
        changed = True
        while changed:
            changed = False
            for v in list(visited):
                for k in nodes[v]['kids']:
                    if k not in nodes or nodes[k]['K'] > g or k in seen:
                        continue
                    if k in P and P[k][0] < g:
                        seen.add(k)           # an already processed node has no waiters: the sweep passes through it
                        visited.append(k)
                        changed = True
                    elif not watched(k, g):
                        cut.setdefault(k, g)
                        seen.add(k)
                        visited.append(k)
                        changed = True
    for g, lb in Pseq:
        if lb in nodes:
            sweep(lb, g)

    def anc_triggered_before(label, g):
        for a in ancestors(label):
            for tg, _ in T.get(a, []):
                if tg < g:
                    return True
        return False

    nontrivial = False
    for label, n in nodes.items():
        dec = decided[label]
        trig = T.get(label, [])
        if len(trig) > 1:
            viol.append(('C05.1', 'condition %s was triggered %d times' % (label, len(trig))))
            continue
        if dec is not None and len(n['kids']) >= 2:
            nontrivial = True
        if any(len(x.split('/')) >= 3 for x in [label]):
            stats['depth3'] = 1
        if trig:
            tg, tst = trig[0]
            if dec is None:
                viol.append(('C05.1', 'condition %s (%s of %s) triggered although its predicate never held over the '
                             'processed operands' % (label, n['mode'], list(n['kids']))))
                continue
            kind, g, st, kid, when = dec
            if when == 'construct':
                okwin = n['K0'] < tg < n['K']
            else:
                okwin = (tst == st and tg > g)
            if not okwin:
                viol.append(('C05.1', 'condition %s (%s of %s) was triggered at action %d (step %s) but its predicate '
                             'first held %s (action %d, step %s, deciding operand %s)' %
                             (label, n['mode'], list(n['kids']), tg, tst,
                              'at construction' if when == 'construct' else 'when an operand was processed', g, st, kid)))
        else:
            if dec is not None and (not anc_triggered_before(label, dec[1] + 1) or
                                    any(b > dec[1] for a, b in waits.get(label, []))):
                kind, g, st, kid, when = dec
                late = label in cut and cut[label] < g and anc_triggered_before(label, g + 1)
                if late:
                    stats['nested_node_awaited_after_detachment'] = 1
                viol.append(('C05.1/late-waiter' if late else 'C05.1', 'condition %s (%s of %s) never triggered although its predicate held %s (deciding '
                             'operand %s, step %s)' % (label, n['mode'], list(n['kids']),
                                                       'at construction' if when == 'construct' else 'later', kid, st)))
        # outcome of the node
        if trig and dec is not None and label in P:
            pg, pst, pok, pval, _ = P[label]
            kind, g, st, kid, when = dec
            if kind == 'fail':
                stats['failure_before_satisfaction'] = 1
                kv = P[kid][3] if kid in P else None
                if pok is not False or not (isinstance(pval, tuple) and isinstance(kv, tuple) and pval[1:] == kv[1:]):
                    viol.append(('C05.3', 'operand %s failed with %r before %s was met, but the condition is processed '
                                 'as ok=%r value=%r' % (kid, kv, label, pok, pval)))
            else:
                if pok is not True:
                    viol.append(('C05.1', 'condition %s was satisfied but is processed as ok=%r value=%r' %
                                 (label, pok, pval)))
            # operands between trigger and processing
            for k2 in n['kids']:
                if k2 in P and trig[0][0] < P[k2][0] < pg:
                    stats['operand_between_trigger_and_processing'] = 1
                if k2 in P and P[k2][0] > trig[0][0] and P[k2][2] is False:
                    stats['failure_after_satisfaction'] = 1

    # values received by root waiters
    def leaves(label):
        n = nodes.get(label)
        if n is None:
            yield label
            return
        for k in n['kids']:
            yield from leaves(k)

    def dedupe(seq):
        seen = set()
        out = []
        for x in seq:
            if x[0] not in seen:
                seen.add(x[0])
                out.append(x)
        return out

    for r in log:
        if r[0] == 'R' and r[6] in nodes:
            _, g, now, st, pid, opi, lb, how, data, same = r
            dec = decided.get(lb)
            if lb not in P:
                continue
            pg = P[lb][0]
            if how == 'ok':
                if not (isinstance(data, tuple) and data and data[0] == 'CV'):
                    viol.append(('C05.2', '%s waiting on %s received %r, not a ConditionValue' % (pid, lb, data)))
                    continue
                want = dedupe([(lf, P[lf][3]) for lf in leaves(lb) if lf in P and P[lf][0] < pg])
                got = dedupe(list(data[1]))
                if want != got:
                    viol.append(('C05.2', 'value of %s should map exactly the leaves processed before it, in operand '
                                 'order: expected %r, received %r' % (lb, want, got)))
                if dec is not None and dec[0] == 'fail':
                    viol.append(('C05.3', '%s was resumed normally although operand %s failed before %s was met' %
                                 (pid, dec[3], lb)))
            elif how == 'exc':
                if dec is None or dec[0] != 'fail':
                    viol.append(('C05.3', '%s waiting on %s received exception %r but no operand failed before it was '
                                 'met' % (pid, lb, data)))
                else:
                    kv = P[dec[3]][3] if dec[3] in P else None
                    if not (isinstance(kv, tuple) and (kv[1], kv[2]) == (data[0], data[1])):
                        viol.append(('C05.3', '%s waiting on %s received %r, expected the failure of operand %s: %r' %
                                     (pid, lb, data, dec[3], kv)))
    # value stability
    for pid, i, lb, cur, logged in cvs_final:
        if cur != logged:
            viol.append(('C05.4', 'the value %s received for %s changed afterwards: %r -> %r' % (pid, lb, logged[1], cur[1])))
    # foreign operands
    for r in log:
        if r[0] == 'O' and r[6] == 'cond-mixed':
            if r[8] == 'ValueError':
                stats['foreign_refused'] = 1
            elif r[8] == 'accepted':
                viol.append(('C05.5', 'condition %s mixing events of two environments was not refused with '
                             'ValueError' % r[7]))
            else:
                viol.append(('C05.5', 'condition %s over events of one environment was refused with ValueError' % r[7]))

    def cond_handling(lb, g):
        """Is the failure of lb, processed at action g, handled by a condition? handled/unhandled/lenient."""
        res = 'unhandled'
        for label, n in nodes.items():
            if lb not in n['kids'] or n['K'] > g:
                continue
            idx = [k for k, (kid, pre) in enumerate(zip(n['kids'], n['pre'])) if kid == lb and not pre]
            if not idx:
                continue
            trig = T.get(label, [])
            if trig and trig[0][0] < g:
                continue                      # already decided: the failure changes nothing and is not handled
            if anc_triggered_before(label, g):
                return 'lenient'              # subtree of a decided parent: attached or detached, unobservable
            res = 'handled'
        return res

    viol.sort(key=lambda v: v[0] == 'C05.1/late-waiter')     # anything else in the same run is reported first
    return viol, stats, nontrivial, cond_handling


def run(case):
    w = setup_world(case)
    env = w.env
    steps = drive(w, case.get('drive', [['run']]), max_steps=4000)
    quiescent = env.peek() == float('inf') and steps < 4000
    cvs_final = []
    for pid, i, lb, v, logged in w.cvs:
        cur = ('CV', tuple((env.label(e), san(x)) for e, x in v.items()))
        cvs_final.append((pid, i, lb, cur, logged))
    viol, stats, nontrivial, ch = check(env.log, case, cvs_final)
    if case.get('big_barrier'):
        stats['condition_over_hundreds_of_operands'] = 1
    final = {}
    for pid, p in w.procs.items():
        alive = p.is_alive
        try:
            ok, val = (p.ok, san(p.value)) if not alive else (None, None)
        except AttributeError:
            ok, val = None, '<unavailable>'
        final[pid] = (alive, ok, val)
    v2, s2, _ = c02.check(env.log, c02._values(case), final, quiescent, cond_handling=ch)
    for cl, msg in v2:
        if cl == 'C02.6':
            viol.append(('C05.3', 'failure handling around conditions: ' + msg))
        elif cl in ('C02.1',):
            viol.append(('C05.1', 'waiters of condition/operand: ' + msg))
    if s2.get('unhandled_escape'):
        stats['late_failure_escapes'] = 1
    res = {'viol': viol, 'digest': digest_of(env.log), 'nontrivial': nontrivial, 'stats': stats,
           'simtime': float(env.now) - float(case.get('t0', 0)), 'steps': steps}
    if case.get('_excerpt'):
        res['excerpt'] = excerpt(env)
    return res
