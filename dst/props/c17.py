"""C17 - TCP sends only inside its window and adapts it by the Reno/CUBIC rules (DESIGN.md C17)."""
from ..core import digest_of, san
from ..net import NetWorld
from ..tcp import make_sender, MSS
from onl.packet import Packet

ID = 'C17'
SHRINK_KEEP = ('rtt_est', 'cwnd', 'ssthresh', 'pace', 'msg', 'tail')
TIERS = {'quick': {'runs': 8000, 'budget_s': 30}, 'thorough': {'runs': 400000, 'budget_s': 600}}
RULE = ('a real TCPPacketGenerator (Reno from random initial cwnd/ssthresh, CUBIC from its defaults) whose peer is a harness '
        'stub feeding scripted ACK histories: new ACKs advancing 1..m segments with arbitrary RTT samples, runs of 1..6 '
        'duplicate ACKs, silences long enough for retransmission timers to expire; a textbook reference machine is stepped '
        'with the same history and compared after every event; non-trivial = the history contains a duplicate-ACK run or a '
        'timeout; distinct = history digest')
REAL = ['onl.packet.tcp_generator.TCPPacketGenerator / TCPReno / TCPCubic', 'onl.utils.timer.Timer', 'onl.sim kernel']
STUBS = ['the ACK-feeding peer (records segments, builds ACK packets)', 'the textbook Reno / Jacobson-Karels reference machine']
ASSUMPTIONS = ['ssthresh after a retransmission timeout is not specified by the statement: the reference adopts the observed '
               'value there', 'CUBIC congestion avoidance is compared with the window-growth function of the CUBIC paper '
               '(C = 0.4, beta = 0.2, TCP-friendly region on) in the sender\'s units', 'scripted new ACKs never acknowledge unsent data; duplicates repeat the current mark']
PROBES = ['sender_feeds_a_real_port', 'timer_expired_while_segment_queued_locally', 'cubic_avoidance', 'ack_in_expiry_instant', 'buffered_not_multiple_of_mss', 'paced_flow', 'one_or_two_dups_then_new', 'ge4_dups', 'ack_advancing_several', 'timeout_during_fast_recovery', 'timeout',
          'fast_retransmit', 'congestion_avoidance', 'slow_start', 'cc_cubic', 'dups_with_nothing_outstanding']


def gen(rng, tier):
    if rng.random() < 0.05:
        return {'sub': 'barepath', 'cc': rng.choice(['reno', 'reno', 'cubic']), 'segments': rng.randint(4, 30),
                'cwnd': rng.choice([MSS, 4 * MSS, 20 * MSS]), 'ssthresh': rng.choice([65535, 2048]),
                'rtt_est': rng.choice([0.05, 0.1, 0.4]), 'port_rate': rng.choice([20480, 40960, 409600]),
                'd': rng.choice([0.05, 0.5, 1.0]), 'events': []}
    cc = rng.choice(['reno', 'reno', 'reno', 'cubic'])
    ev = []
    long_ca = rng.random() < 0.05
    if long_ca:
        # a long stretch of congestion avoidance: hundreds of single-segment ACKs, cwnd takes many fractional values
        for _ in range(rng.randint(150, 380)):
            ev.append(['new', 1, rng.choice([0.01, 0.05, 0.1])])
            if rng.random() < 0.01:
                ev.append(['dup', 3])
    for _ in range(0 if long_ca else rng.randint(1, 40 if tier == 'thorough' else 25)):
        r = rng.random()
        if r < 0.55:
            ev.append(['new', rng.choice([1, 1, 1, 2, 3, 5]), rng.choice([0.01, 0.05, 0.1, 0.3, 1.0, 2.5])])
        elif r < 0.85:
            ev.append(['dup', rng.choice([1, 1, 2, 2, 3, 3, 4, 6])])
        else:
            ev.append(['wait', rng.choice([0.5, 2.0, 5.0, 20.0])])
    t0 = rng.choice([-1000.0, -50.0, -0.125]) if rng.random() < 0.1 else 0      # a clock that starts below zero
    sync = None
    if rng.random() < 0.12:
        # a new ACK arrives in the very instant a retransmission timer is due and is handled ahead of it
        sync = [rng.randrange(4), rng.choice([1, 1, 2, 5])]
    return {'cc': cc, 't0': t0, 'segments': 2000 if long_ca else rng.choice([400, 400, 3, 8]), 'sync_ack': sync,
            'pace': rng.choice([None, None, 0.5, 1.0, 2.0]),   # application-limited (paced) flows
            'msg': rng.choice([MSS, MSS, 200, 700, 1000]),     # paced flows: bytes handed over per arrival
            'tail': rng.choice([0, 0, 0, 200, 464]),           # flow size need not be a multiple of the MSS
            'rtt_est': rng.choice([0.05, 0.2, 1.0, 3.0]),
            # (rarely a window of hundreds of segments: what a long-lived connection on a fat pipe grows into)
            'cwnd': rng.choice([MSS, 2 * MSS, 4 * MSS, 10 * MSS, 20 * MSS]) if rng.random() > 0.04 else
            rng.choice([300000, 1 << 19, 700 * MSS]),
            'ssthresh': rng.choice([1024, 2048]) if long_ca else rng.choice([65535, 1024, 2048, 4096, 8192]), 'events': ev}


def valid(case):
    for e in case.get('events', []):
        if not e or e[0] not in ('new', 'dup', 'wait'):
            return False
        if e[0] == 'new' and (len(e) < 3 or e[1] < 1 or e[2] <= 0):
            return False
        if e[0] == 'dup' and (len(e) < 2 or e[1] < 1):
            return False
        if e[0] == 'wait' and (len(e) < 2 or e[1] <= 0):
            return False
    return True


class Peer:
    def __init__(self, w):
        self.w = w
        self.highest = 0      # end of the highest byte the sender has emitted

    def put(self, p):
        self.highest = max(self.highest, p.packet_id + p.size)


def run_barepath(case):
    """The sender's next hop is a real, slow Port (then wires and a real TCPSink, nothing tapped): retransmission timers
    expire while their segments are still queued locally. Every expiry must be handled by the rule of the statement."""
    from onl.netdev import Port, Wire
    from onl.packet import TCPSink, TCPPacketGenerator, TCPReno, TCPCubic
    from onl.packet.tcp_generator import Flow
    w = NetWorld(0)
    env = w.env
    n = case.get('segments', 8)
    flow = Flow(flow_id=1, src='h0', dst='h1', finish_time=None, size=n * MSS)
    cc = TCPCubic() if case.get('cc') == 'cubic' else TCPReno(mss=MSS, cwnd=case.get('cwnd', MSS), ssthresh=case.get('ssthresh', 65535))
    sender = TCPPacketGenerator(env, flow, cc, element_id='h0', rtt_estimate=case.get('rtt_est', 0.1))
    sink = TCPSink(env)
    port = Port(env, case.get('port_rate', 40960), None, False, 'p0')
    wd, wa = Wire(env, lambda: case.get('d', 0.5)), Wire(env, lambda: case.get('d', 0.5))
    sender.out, port.out, wd.out, sink.out, wa.out = port, wd, sink, wa, sender
    orig = sender.timeout_callback
    viol, stats = [], {'sender_feeds_a_real_port': 1}

    def observed(packet_id):
        c = sender.congestion_control
        before = (c.cwnd, sender.rto)
        queued = any(getattr(x, 'packet_id', None) == packet_id for x in port.store.items)
        r = orig(packet_id)
        if queued:
            stats['timer_expired_while_segment_queued_locally'] = 1
        if c.cwnd != MSS or not close(sender.rto, 2 * before[1]):
            viol.append(('C17.3', 'retransmission timeout of segment %r at t=%r (segment %s in the sender\'s own port): cwnd '
                         '%r -> %r, rto %r -> %r; the rule gives cwnd %d and rto %r' %
                         (packet_id, env.now, 'still queued' if queued else 'not queued', before[0], c.cwnd, before[1],
                          sender.rto, MSS, 2 * before[1])))
        return r
    sender.timeout_callback = observed
    w.run(max_steps=60000)
    for r in w.log:
        if r[0] == 'ERR':
            viol.append(('C17.5', 'the run raised %r' % (r[4],)))
            break
    return {'viol': viol[:3], 'digest': digest_of((w.env.now, sender.last_ack, tuple(sink.recv_buffer and sink.recv_buffer[0]))),
            'nontrivial': True, 'stats': stats, 'simtime': float(env.now), 'steps': w.steps}


def run(case):
    if case.get('sub') == 'barepath':
        return run_barepath(case)
    sync = case.get('sync_ack')
    at = None
    if sync:
        # dry run: the instants at which retransmission timers expire; the run proper delivers one more new ACK in such
        # an instant through an occurrence scheduled before everything else (so it is handled ahead of the timer)
        dry = execute(case, None)
        tos = [r[2] for r in dry.log if r[0] == 'TO' and r[4] == 'enter']
        if tos:
            at = (tos[sync[0] % len(tos)], sync[1])
    w = execute(case, at)
    viol, stats, nt = check(w, case)
    if at is not None:
        stats['ack_in_expiry_instant'] = 1
    res = {'viol': viol, 'digest': digest_of(w.log), 'nontrivial': nt, 'stats': stats, 'simtime': float(w.env.now),
           'steps': w.steps}
    if case.get('_excerpt'):
        res['excerpt'] = [repr(r) for r in w.log[-80:]]
    return res


def execute(case, at):
    w = NetWorld(case.get('t0', 0))
    env = w.env
    peer = Peer(w)
    hold = {}
    if at is not None:
        def early():
            yield env.timeout(at[0] - env.now)
            hold['fire']()
        env.process(early())
    sender, flow = make_sender(w, case, peer)
    fid = flow.flow_id
    acked = [0]

    def snap(what, *a):
        cc = sender.congestion_control
        w.rec('EV', what, a, cc.cwnd, cc.ssthresh, sender.rto, sender.last_ack, sender.next_seq)

    def mkack(ackno, t):
        a = Packet(t, 40, max(0, ackno - MSS), flow_id=fid + 10000)
        a.ack = ackno
        return a

    def script():
        yield env.timeout(0.001)
        for e in case.get('events', []):
            if e[0] == 'new':
                ackno = min(acked[0] + e[1] * MSS, peer.highest)
                if ackno <= acked[0]:
                    continue
                w.rec('PRE', 'new', ackno, e[2])
                acked[0] = ackno
                ap = mkack(ackno, env.now - e[2])
                sender.put(ap)
                snap('new', ackno, e[2], (ackno - sender.last_ack), env.now - ap.time)
            elif e[0] == 'dup':
                for _ in range(e[1]):
                    w.rec('PRE', 'dup', acked[0], None)
                    sender.put(mkack(acked[0], env.now - 0.01))
                    snap('dup', acked[0], peer.highest)
            else:
                yield env.timeout(e[1])
            yield env.timeout(0.001)
    def fire():
        ackno = min(acked[0] + at[1] * MSS, peer.highest)
        if ackno <= acked[0]:
            return
        w.rec('PRE', 'new', ackno, 0.25)
        acked[0] = ackno
        ap = mkack(ackno, env.now - 0.25)
        sender.put(ap)
        snap('new', ackno, 0.25, (ackno - sender.last_ack), env.now - ap.time)
    hold['fire'] = fire
    env.process(script())
    w.run(max_steps=120000, until=1e9)
    return w


def close(a, b):
    # (a == b first: an RTO doubled a thousand times is inf on both sides, and inf - inf is nan)
    return a == b or abs(a - b) <= 1e-9 * max(1.0, abs(a), abs(b))


class RefCubic:
    """The window-growth function of CUBIC (Ha, Rhee, Xu 2008, Fig. 'Linux CUBIC algorithm', with TCP friendliness) in
    the sender's units (bytes, seconds), C = 0.4, beta = 0.2; no loss epoch is ever recorded (W_last_max stays 0)
    because the sender handles duplicate ACKs by the Reno rules of the statement."""

    C, BETA = 0.4, 0.2

    def __init__(self):
        self.reset()
        self.cnt = 0
        self.cwnd_cnt = 0

    def reset(self):
        self.w_last_max = self.origin = self.d_min = self.w_tcp = self.k = self.ack_cnt = 0
        self.epoch_start = None           # no epoch yet (whatever the clock shows: it may be negative or zero)

    def sample(self, rtt):
        self.d_min = min(self.d_min, rtt) if self.d_min > 0 else rtt

    def avoid(self, cwnd, now, mss):
        self.ack_cnt += 1
        if self.epoch_start is None:
            self.epoch_start = now
            if cwnd < self.w_last_max:
                self.k = ((self.w_last_max - cwnd) / self.C) ** (1.0 / 3)
            else:
                self.k = 0
                self.origin = cwnd
            self.ack_cnt = 1
            self.w_tcp = cwnd
        t = now + self.d_min - self.epoch_start
        target = self.origin + self.C * (t - self.k) ** 3
        self.cnt = cwnd / (target - cwnd) if target > cwnd else 100 * cwnd
        self.w_tcp += 3 * self.BETA / (2 - self.BETA) * (self.ack_cnt / cwnd)
        self.ack_cnt = 0
        if self.w_tcp > cwnd:
            self.cnt = min(self.cnt, cwnd / (self.w_tcp - cwnd))
        if self.cwnd_cnt > self.cnt:
            self.cwnd_cnt = 0
            return cwnd + mss
        self.cwnd_cnt += 1
        return cwnd


def check(w, case):
    viol, stats = [], {}
    cubic = case.get('cc') == 'cubic'
    rc = RefCubic()
    if case.get('pace'):
        stats['paced_flow'] = 1
    if case.get('tail') or (case.get('pace') and case.get('msg', MSS) % MSS):
        stats['buffered_not_multiple_of_mss'] = 1
    if cubic:
        stats['cc_cubic'] = 1
        cwnd, ssth = 512, 65535
    else:
        cwnd, ssth = case.get('cwnd', MSS), case.get('ssthresh', 65535)
    srtt = case.get('rtt_est', 1.0)
    rttvar = 0.0
    rto = 2 * srtt
    last_ack = 0
    dups = 0
    next_new = 0
    nontrivial = False
    expect_retx = None
    pre = None
    prev_obs = None
    in_to = None
    for r in w.log:
        tag = r[0]
        if tag == 'ERR':
            viol.append(('C17.5/%s' % (r[4][1] if isinstance(r[4], tuple) and len(r[4]) > 1 else 'exc'),
                         'the run raised %r' % (r[4],)))
            break
        if tag == 'SEG':
            _, g, now, seq, size, fl, ptime, nseq, lack, sbuf, ocwnd, ossth, orto = r
            if seq == next_new:
                # a new data segment
                if size != MSS:
                    viol.append(('C17.1', 'new segment %r has size %r, not one MSS' % (seq, size)))
                if not (seq + MSS <= min(sbuf, lack + ocwnd) + 1e-9):
                    viol.append(('C17.1', 'new segment %r sent at t=%r with next_seq+MSS=%r > min(buffered %r, last_ack %r + '
                                 'cwnd %r)' % (seq, now, seq + MSS, sbuf, lack, ocwnd)))
                next_new = seq + MSS
            elif seq > next_new:
                viol.append(('C17.1', 'new segment %r is not consecutive (expected %r)' % (seq, next_new)))
                next_new = seq + MSS
            else:
                if expect_retx is not None and expect_retx[0] == seq:
                    expect_retx = None
            if ocwnd < MSS - 1e-9:
                viol.append(('C17.2', 'cwnd %r below one MSS' % (ocwnd,)))
            continue
        if tag == 'PRE':
            pre = r
            continue
        if tag == 'TO':
            if r[4] == 'enter':
                in_to = r[3]
                expect_retx = (r[3], 'timeout')
                continue
            _, g, now, seq, _, ocwnd, ossth, orto = r
            stats['timeout'] = 1
            nontrivial = True
            if dups >= 3:
                stats['timeout_during_fast_recovery'] = 1
            cwnd = MSS
            rc.reset()
            rto = rto * 2
            ssth = ossth                      # unspecified by the statement: adopt
            if not close(ocwnd, cwnd) or not close(orto, rto):
                viol.append(('C17.3', 'after the retransmission timeout of segment %r at t=%r: cwnd %r rto %r; rule gives cwnd '
                             '%r (one MSS) and doubled rto %r' % (seq, now, ocwnd, orto, cwnd, rto)))
                cwnd, rto = ocwnd, orto
            if expect_retx is not None and expect_retx[1] == 'timeout':
                viol.append(('C17.3', 'the timeout of segment %r did not retransmit it' % (seq,)))
                expect_retx = None
            in_to = None
            continue
        if tag != 'EV':
            continue
        _, g, now, what, a, ocwnd, ossth, orto, olast, onext = r
        if what == 'new':
            ackno, sample = a[0], a[1]
            if ackno - last_ack > MSS:
                stats['ack_advancing_several'] = 1
            if 0 < dups < 3:
                stats['one_or_two_dups_then_new'] = 1
            if dups >= 3:
                cwnd = ssth                    # deflate, then count like any new ACK
            dups = 0
            err = sample - srtt
            srtt += 0.125 * err
            rttvar += 0.25 * (abs(err) - rttvar)
            rto = srtt + 4 * rttvar
            last_ack = ackno
            before = cwnd
            if cubic:
                rc.sample(a[3] if len(a) > 3 else sample)
            if cwnd <= ssth:
                cwnd += MSS
                stats['slow_start'] = 1
                grow_ok = close(ocwnd, cwnd)
            elif not cubic:
                cwnd += MSS * MSS / cwnd
                stats['congestion_avoidance'] = 1
                grow_ok = close(ocwnd, cwnd)
            else:
                stats['congestion_avoidance'] = 1
                stats['cubic_avoidance'] = 1
                try:
                    cwnd = rc.avoid(cwnd, now, MSS)
                    grow_ok = close(ocwnd, cwnd)
                except ZeroDivisionError:
                    # the growth function itself divides by (target - cwnd) only when target > cwnd
                    grow_ok = close(ocwnd, before) or close(ocwnd, before + MSS)
                    cwnd = ocwnd
            if not grow_ok:
                viol.append(('C17.2', 'new ACK %r at t=%r: cwnd became %r; rule gives %r (ssthresh %r, cwnd before growth %r)' %
                             (ackno, now, ocwnd, cwnd, ssth, before)))
                cwnd = ocwnd
            if not close(ossth, ssth):
                viol.append(('C17.2', 'new ACK %r at t=%r: ssthresh became %r, expected %r' % (ackno, now, ossth, ssth)))
                ssth = ossth
            if not close(orto, rto):
                viol.append(('C17.4', 'new ACK %r (RTT sample %r) at t=%r: rto is %r; srtt + 4*rttvar with gains 1/8 and 1/4 '
                             'gives %r' % (ackno, sample, now, orto, rto)))
                rto = orto
                srtt, rttvar = srtt, max(0.0, (orto - srtt) / 4)
            if olast != ackno:
                viol.append(('C17.2', 'new ACK %r: last acknowledged byte is %r' % (ackno, olast)))
        elif what == 'dup':
            nontrivial = True
            dups += 1
            outstanding = a[1] > last_ack
            if not outstanding:
                stats['dups_with_nothing_outstanding'] = 1
            if dups == 3:
                stats['fast_retransmit'] = 1
                ssth = max(2 * MSS, cwnd / 2)
                cwnd = ssth + 3 * MSS
                if outstanding and expect_retx is None:
                    # the retransmission must have happened inside this put(): look back for the SEG record
                    ok = False
                    for q in reversed(w.log[:w.log.index(r)]):
                        if q[0] == 'PRE':
                            break
                        if q[0] == 'SEG' and q[3] == last_ack:
                            ok = True
                            break
                    if not ok:
                        viol.append(('C17.2', 'third duplicate ACK of %r at t=%r did not retransmit the missing segment' %
                                     (last_ack, now)))
            elif dups > 3:
                stats['ge4_dups'] = 1
                cwnd += MSS
            if not close(ocwnd, cwnd) or not close(ossth, ssth):
                viol.append(('C17.2', 'duplicate ACK #%d of %r at t=%r: cwnd %r ssthresh %r; rule gives cwnd %r ssthresh %r' %
                             (dups, last_ack, now, ocwnd, ossth, cwnd, ssth)))
                cwnd, ssth = ocwnd, ossth
            if olast != last_ack:
                viol.append(('C17.2', 'a duplicate ACK moved the acknowledged mark from %r to %r' % (last_ack, olast)))
        if ocwnd < MSS - 1e-9:
            viol.append(('C17.2', 'cwnd %r below one MSS' % (ocwnd,)))
        if len(viol) > 6:
            break
    return viol, stats, nontrivial
