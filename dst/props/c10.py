"""C10 - Wire: drawn delay, order kept, loss only by rate; Cable = two independent wires (DESIGN.md C10)."""
from ..core import digest_of
from ..net import NetWorld, InTap, OutTap, Recorder, Script, ScriptedRandom, start_injector, close, gen_times
from onl.netdev import Wire, Cable
import onl.netdev.wire as wire_mod

from ..net import valid_workloads as valid  # noqa: E402,F401

ID = 'C10'
TIERS = {'quick': {'runs': 12000, 'budget_s': 30}, 'thorough': {'runs': 600000, 'budget_s': 600}}
RULE = ('one real Wire (or a Cable with two endpoints) fed by a harness injector; scripted delay lists (constant, '
        'decreasing, random, zero), arrivals while earlier packets are in flight, bursts, loss rates in {None,0,p,1} with '
        'scripted uniform draws; non-trivial = some packet was held back by its predecessor or lost; distinct = history digest')
REAL = ['onl.netdev.wire.Wire', 'onl.netdev.wire.Cable', 'onl.sim kernel']
STUBS = ['injector, taps, endpoints, scripted delay distribution, ScriptedRandom replacing onl.netdev.wire.random']
ASSUMPTIONS = ['the n-th packet taken from the wire consumes the next loss draw (if a loss rate is set) and, if kept, the '
               'next delay draw; a packet is lost iff draw < p', 'FLOAT workloads: relative tolerance 1e-9 on delivery times']
PROBES = ['compared_with_bare_twin', 'reconfigured_in_use', 'debug_output', 'big_clock', 'late_out', 'same_object_reenters', 'draw_near_loss_rate', 'two_sources_same_ids', 'later_packet_shorter_delay', 'zero_delay', 'lost_between_delivered', 'held_back_by_predecessor', 'cable',
          'loss_rate_one', 'loss_rate_zero']


def gen(rng, tier):
    mode = rng.choice(['GRID', 'GRID', 'FLOAT'])
    n = rng.randint(1, 30 if tier == 'quick' else 60)
    ts = gen_times(rng, n, mode)
    if mode == 'FLOAT':
        pool = [0.0, 0.1, 0.3, 0.7, 1.1, 2.5, rng.random(), rng.random() * 3]
    else:
        pool = [0, 0.125, 0.25, 0.5, 1, 2, 3]
    style = rng.choice(['const', 'decr', 'rand', 'rand', 'zero'])
    if style == 'const':
        delays = [rng.choice(pool)]
    elif style == 'zero':
        delays = [0]
    elif style == 'decr':
        delays = sorted([rng.choice(pool) for _ in range(8)], reverse=True)
    else:
        delays = [rng.choice(pool) for _ in range(rng.randint(2, 12))]
    loss = rng.choice([None, None, 0, 0.3, 0.5, 1, 1.0, 0.125, 0.004, 0.995, 0.015, 1 / 3])
    draws = [rng.random() for _ in range(16)]
    if loss and loss < 1:
        # draws just below / above the loss rate: a rate that is rounded or compared the wrong way flips them
        for k in range(0, 16, 2):
            draws[k] = min(0.999999, max(0.0, loss + rng.choice([-0.004, -1e-3, -1e-6, 1e-6, 1e-3, 0.004])))
    wl = [[ts[k], rng.randint(0, 2), rng.choice([64, 512, 1500])] for k in range(n)]
    if rng.random() < 0.25:
        # the same Packet object enters again later (a retransmission), possibly while its first copy is still inside
        for k in range(1, n):
            if rng.random() < 0.3:
                wl[k] = [wl[k][0], wl[k][1], wl[k][2], 0, rng.randrange(k)]
    case = {'engine': 'N', 'mode': mode, 'delays': delays, 'loss': loss, 'loss_draws': draws, 'workload': wl}
    r0 = rng.random()
    if mode == 'GRID' and r0 < 0.12:
        case['t0'] = 2.0 ** 40              # a long-running simulation: delays are tiny compared with the clock
    elif mode == 'GRID' and r0 < 0.2:
        # an integer clock (ticks) far from zero, integer instants and delays
        case['t0'] = rng.choice([10 ** 12, 2 ** 60 + 1])
        case['ticks'] = 8                    # every instant and delay of the case is multiplied by 8 and made an int
    if rng.random() < 0.15 and not case.get('cable'):
        case['late_out'] = True             # the wire's `out` is attached after the first packets have entered
    if rng.random() < 0.2:
        case['debug'] = True                # the wire narrates what it does (stdout); nothing else may change
    if rng.random() < 0.2 and n >= 2 and not case.get('ticks'):
        # the link changes while in use: another delay distribution and loss rate are assigned to the wire's public
        # attributes between two arrivals (a route flap, an outage, a repair); packets taken from then on follow them
        case['reconf'] = {'after': rng.randrange(n), 'off': 2.0 ** -6 if mode == 'GRID' else 0.0123,
                          'delays2': [rng.choice(pool) for _ in range(rng.randint(1, 6))],
                          'loss2': rng.choice([None, 0, 1, 0.5, 0.3, loss])}
    if rng.random() < 0.3:
        # a second source on the same wire: its packets carry the same ids 1, 2, ... as the first one's
        case['workload_b'] = [[t, 2, 200] for t in gen_times(rng, rng.randint(1, 15), mode)]
    elif rng.random() < 0.25:
        case['cable'] = True
        case['workload2'] = [[t, 1, 100] for t in gen_times(rng, rng.randint(1, 15), mode)]
    return case


class End:
    def __init__(self, w, name):
        self.w, self.name, self.out = w, name, None

    def put(self, p):
        self.w.rec('SINK', self.name, self.w.label(p))


class ViaOut:
    """Injects through an endpoint's `out` (whatever the code under test wired there)."""

    def __init__(self, dev):
        self.dev = dev

    def put(self, p):
        return self.dev.out.put(p)


def run(case):
    res, w = _run(case, False)
    if case.get('twin') and not case.get('cable'):
        # the same wire between library elements only (a library sink behind it, no taps)
        from ..net import sink_view, compare_sink_views
        res['stats']['compared_with_bare_twin'] = 1
        w2 = _run(case, True)
        if w2.raised:
            res['viol'].append(('C10.T', 'the same scenario without taps raised %r' % (w2.raised[0],)))
        else:
            d = compare_sink_views(sink_view(w), sink_view(w2))
            if d is not None:
                res['viol'].append(('C10.T', 'the wire works differently when nobody watches it (no taps, a library sink '
                                    'behind it): ' + d))
    return res


def _run(case, bare):
    t0 = case.get('t0', 0)
    w = NetWorld(t0, bare=bare)
    env = w.env
    saved = wire_mod.random
    viol = []

    ticks = (case.get('ticks') or 1) if isinstance(t0, int) and t0 else None

    def tk(x):
        return int(x * ticks) if ticks else x

    def shift(wl):
        return [tuple([t0 + tk(x[0])] + list(x[1:])) for x in wl]
    try:
        sr = ScriptedRandom(w, 'loss', case.get('loss_draws', []))
        _orig = sr.uniform

        def uniform(a, b, sr=sr):
            v = sr.values[sr.i % len(sr.values)] if sr.values else 0.5
            sr.i += 1
            ap = env.active_process
            w.rec('DRAW', 'loss', v, w.pnames.get(ap))
            return a + (b - a) * v
        sr.uniform = uniform
        wire_mod.random = sr
        dist = Script(w, 'delay', [tk(d) for d in case.get('delays', [1])], 1)
        wires = {}
        if case.get('cable'):
            cable = Cable(env, dist, case.get('loss'), 0, bool(case.get('debug')))
            d1, d2 = End(w, 'dev1'), End(w, 'dev2')
            cable.set_endpoints(d1, d2)
            ok = (d1.out is cable.wire1 and cable.wire1.out is d2 and d2.out is cable.wire2 and cable.wire2.out is d1)
            if not ok:
                viol.append(('C10.4', 'Cable.set_endpoints did not wire dev1->wire1->dev2 and dev2->wire2->dev1'))
            w1, w2 = d1.out, d2.out
            n1, n2 = w1.out, w2.out
            for nm, wr, nx, dev in (('w1', w1, n1, d1), ('w2', w2, n2, d2)):
                w.pnames[wr.action] = nm
                wr.out = OutTap(w, nm, wr, nx)
                dev.out = InTap(w, nm, wr)
                wires[nm] = wr
            start_injector(w, ViaOut(d1), shift(case.get('workload', [])))
            start_injector(w, ViaOut(d2), shift(case.get('workload2', [])))
        else:
            wr = Wire(env, dist, case.get('loss'), 0, bool(case.get('debug')))
            rc = case.get('reconf')
            if rc and case.get('workload'):
                dist2 = Script(w, 'delay2', [tk(d) for d in rc.get('delays2', [1])], 1)
                at = sorted(x[0] for x in case['workload'])[min(rc.get('after', 0), len(case['workload']) - 1)] + rc.get('off', 0.0123)

                def reconfigure():
                    yield env.timeout(at)
                    wr.delay_dist = dist2
                    wr.loss_rate = rc.get('loss2')
                    w.rec('RECONF', 'w1')
                env.process(reconfigure())
            w.pnames[wr.action] = 'w1'
            outtap = OutTap(w, 'w1', wr, Recorder(w, 'sink'))
            delays_ = case.get('delays', [1]) or [1]
            if case.get('late_out') and min(tk(d) for d in delays_) > 0 and case.get('workload'):
                # attached in the instant of the first arrival (by another process), i.e. before anything is due
                first = min(tk(x[0]) for x in case['workload'] + (case.get('workload_b') or []))

                def attach():
                    if first > 0:
                        yield env.timeout(first)
                    yield env.timeout(0)
                    wr.out = outtap
                env.process(attach())
            else:
                wr.out = outtap
            wires['w1'] = wr
            tap = InTap(w, 'w1', wr)
            start_injector(w, tap, shift(case.get('workload', [])))
            if case.get('workload_b'):
                start_injector(w, tap, shift(case.get('workload_b', [])), src='srcB')
        w.run(max_steps=20000 * (40 if case.get('long_life') else 1))
    finally:
        wire_mod.random = saved
    if bare:
        return w
    stats = {}
    nontrivial = False
    for nm in wires:
        v, s, nt = check_wire(w, case, nm)
        viol += v
        stats.update(s)
        nontrivial = nontrivial or nt
    if case.get('cable'):
        stats['cable'] = 1
    if case.get('t0'):
        stats['big_clock'] = 1
    if case.get('late_out'):
        stats['late_out'] = 1
    if case.get('debug'):
        stats['debug_output'] = 1
    if case.get('workload_b') and not case.get('cable'):
        stats['two_sources_same_ids'] = 1
    for r in w.log:
        if r[0] == 'ERR':
            viol.append(('C10.5/%s' % (r[4][1] if isinstance(r[4], tuple) and len(r[4]) > 1 else 'exc'), 'the run raised %r' % (r[4],)))
    if not w.quiescent:
        viol.append(('C10.5', 'the run did not reach quiescence'))
    res = {'viol': viol, 'digest': digest_of(w.log), 'nontrivial': nontrivial, 'stats': stats,
           'simtime': float(env.now), 'steps': w.steps}
    if case.get('_excerpt'):
        res['excerpt'] = [repr(r) for r in w.log[-80:]]
    return res, w


def check_wire(w, case, nm):
    viol, stats = [], {}
    mode = case.get('mode', 'GRID')
    p1 = case.get('loss')
    p2 = (case.get('reconf') or {}).get('loss2')
    reconf_g = None
    arr, outs, draws = [], {}, []
    outorder = []
    for r in w.log:
        if r[0] == 'IN' and r[3] == nm:
            arr.append((r[1], r[2], r[4], r[5]))
        elif r[0] == 'OUT' and r[3] == nm:
            outs.setdefault(r[4], []).append((r[1], r[2], r[5]))
            outorder.append(r[4])
        elif r[0] == 'DRAW' and r[5] == nm:
            draws.append((r[3], r[4], r[1]))
        elif r[0] == 'RECONF' and r[3] == nm:
            reconf_g = r[1]
            stats['reconfigured_in_use'] = 1
    known = {}
    for a in arr:
        known[a[2]] = known.get(a[2], 0) + 1
    for k, lst in outs.items():
        if k not in known:
            viol.append(('C10.1', '%s delivered a packet that never entered it' % nm))
        elif len(lst) > known[k]:
            viol.append(('C10.1', 'packet %s entered %s %d time(s) and was delivered %d times' % (k, nm, known[k], len(lst))))
    if any(c > 1 for c in known.values()):
        stats['same_object_reenters'] = 1
    di = 0
    prev = None
    nontrivial = False
    expected_order = []
    last_lost = False
    taken = {}
    for g, a, pkt, fields in arr:
        lost = False
        # the settings in force when the wire takes the packet (its first draw for it) apply
        second = reconf_g is not None and di < len(draws) and draws[di][2] > reconf_g
        if reconf_g is not None and di >= len(draws):
            second = True
        p = p2 if second else p1
        dname = 'delay2' if second else 'delay'
        if p:
            if p == 1:
                stats['loss_rate_one'] = 1
            if di >= len(draws) or draws[di][0] != 'loss':
                viol.append(('C10.3', 'no loss draw was made for packet %s on %s (loss rate %r)' % (pkt, nm, p)))
                break
            u = draws[di][1]
            di += 1
            lost = u < p
            if abs(u - p) < 0.005:
                stats['draw_near_loss_rate'] = 1
        elif p == 0:
            stats['loss_rate_zero'] = 1
        if lost:
            nontrivial = True
            last_lost = True
            continue
        if di >= len(draws) or draws[di][0] != dname:
            viol.append(('C10.2', 'no delay was drawn for packet %s on %s%s' %
                         (pkt, nm, '' if di >= len(draws) or reconf_g is None else
                          ' from the distribution in force (%s), it drew from %s' % (dname, draws[di][0]))))
            break
        d = draws[di][1]
        di += 1
        k = taken.get(pkt, 0)
        taken[pkt] = k + 1
        if k >= len(outs.get(pkt, [])):
            viol.append(('C10.1', 'packet %s (entered %s at %r, delay %r%s) was never delivered' %
                         (pkt, nm, a, d, ', loss draw %r >= loss rate %r' % (u, p) if p else '')))
            continue
        t = outs[pkt][k][1]
        if outs[pkt][k][2] != fields:
            viol.append(('C10.1', 'packet %s changed on the wire' % pkt))
        want = a + d if prev is None else max(a + d, prev)
        if prev is not None and prev > a + d:
            nontrivial = True
            stats['held_back_by_predecessor'] = 1
        if d == 0:
            stats['zero_delay'] = 1
        if not close(t, want, mode):
            viol.append(('C10.2', 'packet %s entered %s at %r with drawn delay %r (previous delivery %r): delivered at %r, '
                         'law gives %r' % (pkt, nm, a, d, prev, t, want)))
        if prev is not None and last_lost:
            stats['lost_between_delivered'] = 1
        last_lost = False
        if expected_order and d < expected_order[-1][1]:
            stats['later_packet_shorter_delay'] = 1
        expected_order.append((pkt, d))
        prev = t
    for pkt, lst in outs.items():
        if len(lst) > taken.get(pkt, 0) and pkt in known and not viol:
            viol.append(('C10.3', 'packet %s was delivered by %s although its loss draw was below the loss rate %r' % (pkt, nm, p1 if reconf_g is None else (p1, p2))))
    if di < len(draws) and not viol:
        viol.append(('C10.2', '%s made %d more random draws than its packets account for' % (nm, len(draws) - di)))
    if [x[0] for x in expected_order] != outorder and not viol:
        viol.append(('C10.2', '%s delivered %r, entry order of the kept packets is %r' %
                     (nm, outorder, [x[0] for x in expected_order])))
    return viol, stats, nontrivial


_gen_short = gen


def gen(rng, tier):
    case = _gen_short(rng, tier)
    if rng.random() < 0.2:
        case['twin'] = True
    if rng.random() < 1 / 80 and not case.get('cable') and not case.get('reconf') and not case.get('workload_b') and not case.get('late_out') and len(case.get('workload', [])) >= 3:
        # a long life: the same pattern of bursts, gaps and coincidences over and over, thousands of packets in all
        from ..net import stretch_workload
        case['workload'] = stretch_workload(case['workload'], 2600)
        case['long_life'] = True
    return case
