"""C06 - resources: capacity, queue order, no idle slot, legal preemption (DESIGN.md C06)."""
from ..core import digest_of
from ..rprog import gen_resource_case, run_case

ID = 'C06'
TIERS = {'quick': {'runs': 16000, 'budget_s': 30}, 'thorough': {'runs': 1000000, 'budget_s': 600}}
RULE = ('generated histories of request/hold/release, with-blocks, patience (request | timeout then cancel), double '
        'release, release of a non-user, external interrupts of queued and holding processes, on Resource / '
        'PriorityResource / PreemptiveResource of capacity 1-3, instants from tiny pools; non-trivial = at least one '
        'request had to queue; distinct = history digest')
REAL = ['onl.sim.resources.resource.*', 'onl.sim.resources.base.*', 'onl.sim kernel']
STUBS = ['user and interrupter process bodies (harness)']
ASSUMPTIONS = ['each process holds or awaits at most one request at a time and always releases/cancels before it goes on',
               'grants are observed as trigger records of request events; evictions as users vanishing without a release']
PROBES = ['evicted_from_another_resource_while_holding', 'user_process_ended_holding_the_slot', 'cancel_of_queue_head', 'equal_key_preemption_attempt', 'victim_interrupted_before_it_saw_grant',
          'release_and_request_same_instant', 'preemption', 'double_release', 'foreign_release', 'with_exit',
          'interrupt_while_queued', 'interrupt_while_holding', 'boundary_with_queue']


def gen(rng, tier):
    case = gen_resource_case(rng, tier)
    if rng.random() < 1 / 250:
        # a crowd: several hundred requests waiting at once, many of them with equal rank (same priority, same instant,
        # same preempt flag): they are served in arrival order however long the queue
        n = rng.randint(560, 700)
        crowd = [{'id': 'x%d' % j, 'ops': [{'op': 'use', 'prio': rng.choice([0, 0, 1]), 'preempt': False, 'patience': None,
                                            'hold': 0.25, 'style': 'manual', 'extra': [], 'on_intr': 'leave',
                                            'exit_exc': False}]} for j in range(n)]
        case['procs'] = case['procs'] + crowd
        case['order'] = case['order'] + [c['id'] for c in crowd]
        case['crowd'] = True
    return case


def check(w):
    log = w.env.log
    kind = w.kind
    cap = w.case.get('capacity', 1)
    viol = []
    stats = {}
    created = {}      # rid -> dict(G0, key, pid, prio, preempt, time)
    order = []        # rids in creation order
    granted = {}      # rid -> (G, now)
    gone = {}         # rid -> G of cancel/release (left the system)
    evicted = {}      # rid -> dict
    pending_q0 = None
    users = []        # expected users (rids) in grant order
    queued_nontrivial = False
    last_release_now = None
    intr_seen = {}    # pid -> list of S intr records
    abandoned = set()   # rids whose process ended while holding the slot
    full_grants = []

    def rank(rid):
        c = created[rid]
        if kind == 'Resource':
            return (c['G0'],)
        return (c['prio'], c['time'], not c['preempt'], c['G0'])

    def key3(rid):
        c = created[rid]
        return (c['prio'], c['time'], not c['preempt'])

    for r in log:
        tag = r[0]
        if tag == 'Q0':
            pending_q0 = (r[1], r[2], r[4], r[5])
        elif tag == 'T' and r[3].startswith('req:') and 'Release' not in r[3]:
            rid = r[2]
            g = r[1]
            # the grant of a request (possibly inside its own constructor: then it is not yet in `created`)
            if rid not in created:
                if pending_q0 is None:
                    continue
                g0, now0, pid, opi = pending_q0
                op = _op(w.case, pid, opi)
                created[rid] = {'G0': g0, 'pid': pid, 'prio': op.get('prio', 0), 'preempt': op.get('preempt', True),
                                'time': now0}
                order.append(rid)
            if rid in granted:
                viol.append(('C06.1', 'request %s was granted twice' % rid))
            granted[rid] = (g, r[4])
            # clause 2: nobody waiting ranks before it
            for other in order:
                if other != rid and other not in granted and other not in gone and rank(other) < rank(rid) \
                        and created[other]['G0'] < g:
                    viol.append(('C06.2', 'request %s (rank %r) was granted at t=%r while %s (rank %r) was still waiting'
                                 % (rid, rank(rid), r[4], other, rank(other))))
                    break
            if len(users) >= cap:
                # granted into a full resource: only legal as a preemption of the worst-ranked user, in this action
                if kind != 'PreemptiveResource':
                    viol.append(('C06.1', 'request %s granted at t=%r although all %d slots were taken by %r' %
                                 (rid, r[4], cap, users)))
                else:
                    vic = max(users, key=lambda u: (key3(u), created[u]['G0']))
                    evicted[vic] = {'by': rid, 'Gq': g, 'users_before': list(users)}
                    users.remove(vic)
                    stats['preemption'] = 1
            users.append(rid)
            if last_release_now == r[4]:
                stats['release_and_request_same_instant'] = 1
        elif tag == 'Q':
            _, g, now, st, pid, opi, rid, what, args, trig = r
            if rid not in created:
                g0 = pending_q0[0] if pending_q0 else g
                created[rid] = {'G0': g0, 'pid': pid, 'prio': args[0] if args[0] is not None else 0,
                                'preempt': args[1] if args[1] is not None else True, 'time': now}
                order.append(rid)
            if not trig:
                queued_nontrivial = True
                if kind == 'PreemptiveResource' and created[rid]['preempt'] and len(users) >= cap and \
                        max(key3(u) for u in users) == key3(rid):
                    stats['equal_key_preemption_attempt'] = 1
            # clause 5: evictions performed by this request's creation
            pending_q0 = None
        elif tag == 'U':
            _, g, now, st, pid, opi, rid, what, before, after, exc = r
            if exc is not None:
                viol.append(('C06.4', '%s of %s raised %r' % (what, rid, exc)))
            if what in ('release', 'with-exit', 'cancel'):
                if what == 'with-exit':
                    stats['with_exit'] = 1
                if rid not in granted and before[2] and before[2][0] == rid:
                    stats['cancel_of_queue_head'] = 1
                gone[rid] = g
                if rid in users:
                    users.remove(rid)
                    last_release_now = now
            elif what.startswith('harmless-'):
                stats['double_release' if what.endswith('double') else 'foreign_release'] = 1
                if before != after:
                    viol.append(('C06.4', '%s by %s changed the resource: %r -> %r' % (what, pid, before, after)))
        elif tag == 'U0':
            _, g, now, st, pid, opi, rid, trig = r
            if not trig and rid not in granted:
                # about to be cancelled: no longer competes for a slot
                gone[rid] = g
        elif tag == 'S':
            _, g, now, st, pid, opi, rid, what = r[:8]
            if what == 'abandoned':
                abandoned.add(rid)
                stats['user_process_ended_holding_the_slot'] = 1
            if what == 'intr':
                if isinstance(r[8], tuple) and r[8] and r[8][0] == 'Preempted' and not r[8][3]:
                    stats['evicted_from_another_resource_while_holding'] = 1
                intr_seen.setdefault(pid, []).append(r)
                if r[9] == 'wait':
                    stats['interrupt_while_queued'] = 1
                elif r[9] == 'hold':
                    stats['interrupt_while_holding'] = 1
        elif tag in ('SN', 'BD'):
            snap = r[4]
            _, su, sq, cnt = snap
            if cnt > cap or len(su) > cap:
                viol.append(('C06.1', 'resource of capacity %d has %d users at t=%r: %r' % (cap, cnt, r[2], su)))
            if cnt != len(su):
                viol.append(('C06.1', 'count %d differs from len(users) %d' % (cnt, len(su))))
            # users must be exactly: granted, not released, not evicted (worst-ranked user per preempting grant)
            if sorted(su) != sorted(users):
                viol.append(('C06.1', 'users at t=%r are %r; granted minus released minus legally evicted is %r' %
                             (r[2], su, tuple(users))))
                users = list(su) if all(u in created for u in su) else users
            for q in sq:
                if q in granted and q not in gone:
                    viol.append(('C06.1', 'granted request %s is still in the queue' % q))
            if tag == 'BD':
                if sq:
                    stats['boundary_with_queue'] = 1
                if sq and cnt < cap:
                    viol.append(('C06.3', 'clock about to advance from t=%r with %d free slot(s) while %r wait' %
                                 (r[2], cap - cnt, sq)))
    # clause 5: every eviction legal and announced
    for vic, ev in evicted.items():
        pre = ev['by']
        if key3(vic) <= key3(pre):
            if key3(vic) == key3(pre):
                stats['equal_key_preemption_attempt'] = 1
            viol.append(('C06.5', '%s (key %r) was evicted by %s (key %r) although it does not rank strictly worse' %
                         (vic, key3(vic), pre, key3(pre))))
        if not created[pre]['preempt']:
            viol.append(('C06.5', '%s was evicted by the non-preempting request %s' % (vic, pre)))
        if pre not in granted or granted[pre][0] > ev['Gq']:
            viol.append(('C06.5', 'the slot of evicted %s did not go to the preemptor %s in the same action' % (vic, pre)))
        vpid = created[vic]['pid']
        got = [x for x in intr_seen.get(vpid, []) if x[1] > ev['Gq'] and isinstance(x[8], tuple) and x[8][0] == 'Preempted' and x[8][3]]
        want = ('Preempted', created[pre]['pid'], granted[vic][1], True)
        if not got:
            if w.quiescent and vic not in abandoned:
                viol.append(('C06.5', 'evicted process %s never received Interrupt(Preempted)' % vpid))
        else:
            if got[0][8] != want:
                viol.append(('C06.5', 'evicted %s received %r, expected %r' % (vpid, got[0][8], want)))
            if got[0][9] == 'wait':
                stats['victim_interrupted_before_it_saw_grant'] = 1
    return viol, stats, queued_nontrivial


def _op(case, pid, opi):
    for p in case.get('procs', []):
        if p['id'] == pid:
            ops = p.get('ops', [])
            if opi < len(ops):
                return ops[opi]
    return {}


def run(case):
    w = run_case(case)
    viol, stats, nontrivial = check(w)
    for e in w.raised:
        viol.append(('C06.6', 'the run raised %r' % (e,)))
    res = {'viol': viol, 'digest': digest_of(w.env.log), 'nontrivial': nontrivial, 'stats': stats,
           'simtime': float(w.env.now) - float(case.get('t0', 0)), 'steps': w.steps}
    if case.get('_excerpt'):
        res['excerpt'] = [repr(r) for r in w.env.log[-80:]]
    return res
