"""C09 - Port: line rate, tail drop exactly at the limit, occupancy, per-hop stamp, monitor; REDPort (DESIGN.md C09)."""
from ..core import digest_of
from ..net import (NetWorld, InTap, OutTap, Recorder, Script, ScriptedRandom, start_injector, close, gen_times,
                   GRID_RATES, FLOAT_RATES, SIZES)
from onl.netdev import Port, PortMonitor
from onl.netdev.red_port import REDPort
import onl.netdev.red_port as red_mod

from ..net import valid_workloads_noreuse as valid  # noqa: E402,F401

ID = 'C09'
SHRINK_KEEP = ('red',)
TIERS = {'quick': {'runs': 12000, 'budget_s': 30}, 'thorough': {'runs': 600000, 'budget_s': 600}}
RULE = ('one real Port/REDPort between a harness injector and a recording sink; workloads of <=60 packets with bursts, '
        'gaps and arrivals placed exactly at predicted transmission ends; rates >=0 incl. 0; qlimit None / bytes / '
        'packets with sizes chosen around the limit; optional PortMonitor with scripted sampling; RED with scripted '
        'uniform draws; non-trivial = a packet had to wait or was refused; distinct = history digest')
REAL = ['onl.netdev.port.Port', 'onl.netdev.red_port.REDPort', 'onl.netdev.port_monitor.PortMonitor', 'onl.sim kernel',
        'onl.packet.Packet']
STUBS = ['injector process, taps, recording sink, scripted sampling distribution, ScriptedRandom replacing '
         'onl.netdev.red_port.random']
ASSUMPTIONS = ['same-instant leniency: in packet mode a packet that arrived at an idle port counts as "maybe waiting" for '
               'later arrivals of that very instant; monitor samples at an instant where a transmission starts or ends '
               'may see either side', 'FLOAT workloads compare time laws with relative tolerance 1e-9, GRID exactly',
               'RED: one uniform draw per arrival in the probabilistic regions, drop iff draw <= p (equality lenient)']
PROBES = ['compared_with_bare_twin', 'prestamped_packets', 'rate_assigned_after_construction', 'fill_exactly_at_limit', 'arrival_coincides_with_departure', 'rate_zero', 'tail_drop_bytes', 'tail_drop_packets',
          'unlimited', 'monitor_sample', 'red_below_min', 'red_linear_region', 'red_above_max', 'red_above_qlimit',
          'red_drop_by_draw', 'waited']


def gen(rng, tier):
    mode = rng.choice(['GRID', 'GRID', 'FLOAT'])
    n = rng.randint(1, 30 if tier == 'quick' else 60)
    rate = rng.choice(GRID_RATES + [0]) if mode == 'GRID' else rng.choice(FLOAT_RATES + [0.0])
    sizes_pool = rng.choice([SIZES, [100], [64, 128, 256], [1, 2, 3, 1500], [500, 1000, 1500]])
    ts = gen_times(rng, n, mode)
    sizes = [rng.choice(sizes_pool) for _ in range(n)]
    # place some arrivals exactly at predicted transmission ends (FIFO, unlimited)
    if rate:
        dep = 0.0
        deps = []
        for t, s in zip(ts, sizes):
            dep = max(t, dep) + s * 8 / rate
            deps.append(dep)
        for k in range(1, n):
            if rng.random() < 0.25:
                ts[k] = rng.choice(deps[:k])
        ts.sort()
    hop = rng.random() < 0.4
    wl = [[ts[k], rng.randint(0, 3), sizes[k], rng.choice([0, 0, 0.5, 1.0]), None, rng.choice([0, 1, 2]) if hop else 0]
          for k in range(n)]
    case = {'engine': 'N', 'mode': mode, 'rate': rate, 'workload': wl, 'element_id': rng.choice(['port0', 'p', 'sw1.2'])}
    if rng.random() < 0.3:
        case['elem'] = 'REDPort'
        lb = rng.random() < 0.5
        unit = max(sizes_pool) if lb else 1
        minth = rng.choice([1, 2, 3]) * unit
        maxth = minth + rng.choice([1, 2, 4]) * unit
        case['red'] = {'limit_bytes': lb, 'min': minth, 'max': maxth, 'qlimit': maxth + rng.choice([1, 2, 5]) * unit,
                       'maxp': rng.choice([0.1, 0.5, 1.0]), 'wf': rng.choice([0, 1, 2, 3, 5, 9]),
                       'draws': [rng.random() for _ in range(16)]}
        if rng.random() < 0.08:
            case['red']['qlimit'] = None         # "never when qlimit is None": RED without a hard limit
        # RED needs a standing queue: compress time
        for x in wl:
            x[0] = x[0] / 16 if mode != 'DISTINCT' else x[0]
        return case
    case['elem'] = 'Port'
    r = rng.random()
    if r < 0.25:
        case['qlimit'], case['limit_bytes'] = None, rng.random() < 0.5
    elif r < 0.65:
        case['limit_bytes'] = True
        k = rng.choice([1, 2, 3, 5])
        base = sum(rng.choice(sizes_pool) for _ in range(k))
        case['qlimit'] = max(1, base + rng.choice([0, 0, 0, -1, 1]))
    else:
        case['limit_bytes'] = False
        case['qlimit'] = rng.choice([1, 2, 2, 3, 4, 6])
    if rng.random() < 0.15:
        # packets that already carry a stamp under this port's element id (an upstream port with the same id)
        case['prestamped'] = True
    if rng.random() < 0.12:
        # the rate is assigned to the public attribute after construction, once the port's process has started
        case['late_rate'] = rng.choice([1, 12345, rate * 2 + 8])
    if rng.random() < 0.35:
        case['monitor'] = {'included': rng.random() < 0.5,
                           'dist': [rng.choice([0.125, 0.25, 0.5, 1.0, 0.0625]) for _ in range(8)]}
    return case


def _pre(port, p):
    return (port.byte_size, len(port.store.items))


def _post(port, p):
    return (port.packets_received, port.packets_dropped, port.byte_size)


def run(case):
    w, port, mon = _execute(case, False)
    env = w.env
    viol, stats, nontrivial = check(w, case, port, mon)
    if case.get('prestamped'):
        stats['prestamped_packets'] = 1
    if case.get('late_rate') and case.get('elem') != 'REDPort':
        stats['rate_assigned_after_construction'] = 1
    if case.get('twin'):
        # the same port between library elements only, nobody reading its counters while it works
        from ..net import sink_view, compare_sink_views
        stats['compared_with_bare_twin'] = 1
        w2, _p2, _m2 = _execute(case, True)
        if w2.raised:
            viol.append(('C09.T', 'the same scenario without taps raised %r' % (w2.raised[0],)))
        else:
            d = compare_sink_views(sink_view(w), sink_view(w2))
            if d is not None:
                viol.append(('C09.T', 'the port works differently when nobody watches it (no taps, a library sink, no counter '
                             'read from outside): ' + d))
    res = {'viol': viol, 'digest': digest_of(w.log), 'nontrivial': nontrivial, 'stats': stats,
           'simtime': float(env.now), 'steps': w.steps}
    if case.get('_excerpt'):
        res['excerpt'] = [repr(r) for r in w.log[-80:]]
    return res


def _execute(case, bare):
    w = NetWorld(bare=bare)
    env = w.env
    mode = case.get('mode', 'GRID')
    eid = case.get('element_id', 'port0')
    red = case.get('red')
    saved = red_mod.random
    try:
        if case.get('elem') == 'REDPort' and red:
            red_mod.random = ScriptedRandom(w, 'red', red.get('draws', []))
            port = REDPort(env, case['rate'], red['max'], red['min'], red['maxp'], eid, red['qlimit'],
                           weight_factor=red.get('wf', 9), limit_bytes=red.get('limit_bytes', False))
        else:
            late = case.get('late_rate')
            port = Port(env, late if late else case['rate'], case.get('qlimit'), case.get('limit_bytes', False), eid)
            if late:
                def configure():
                    port.rate = case['rate']
                    return
                    yield
                env.process(configure())
        sink = Recorder(w, 'sink')

        def post_out(elem, p):
            return (elem.byte_size, p.perhop_time.get(eid, '<none>') if isinstance(p.perhop_time, dict) else '<bad>')
        port.out = OutTap(w, 'port', port, sink, post=post_out)
        tap = InTap(w, 'port', port, pre=_pre, post=_post)
        if case.get('prestamped'):
            class PreStamp:
                def put(self, p, tap=tap):
                    if p.packet_id % 2:
                        p.perhop_time[eid] = -7.0
                    return tap.put(p)
            tap = PreStamp()
        start_injector(w, tap, [tuple(x) for x in case.get('workload', [])])
        mon = None
        if case.get('monitor') and case.get('elem') != 'REDPort' and not bare:
            mon = PortMonitor(env, port, Script(w, 'mon', case['monitor'].get('dist', [1.0]), 1.0, finite=True),
                              pkt_in_service_included=case['monitor'].get('included', False))
            env.process(mon.run())
        w.run(max_steps=20000 * (40 if case.get('long_life') else 1))
    finally:
        red_mod.random = saved
    return w, port, mon


def check(w, case, port, mon):
    viol = []
    stats = {}
    mode = case.get('mode', 'GRID')
    rate = case['rate']
    arr = []      # dict per arrival
    by = {}
    outs = []
    draws = []
    mon_draws = []
    for r in w.log:
        tag = r[0]
        if tag == 'IN':
            a = {'G': r[1], 't': r[2], 'pkt': r[4], 'size': r[5][3], 'pre': r[6], 'fields': r[5], 'draws': []}
            arr.append(a)
            by[a['pkt']] = a
            cur = a
        elif tag == 'IN2':
            by[r[4]]['post'] = r[5]
            by[r[4]]['G2'] = r[1]
        elif tag == 'OUT':
            a = by.get(r[4])
            if a is None:
                viol.append(('C09.1', 'a packet left the port that never entered it: %r' % (r[5],)))
                continue
            if 'out' in a:
                viol.append(('C09.1', 'packet %s left the port twice' % r[4]))
                continue
            a['out'] = (r[1], r[2])
            a['out_post'] = r[6]
            if r[5] != a['fields']:
                viol.append(('C09.1', 'packet %s changed inside the port: %r -> %r' % (r[4], a['fields'], r[5])))
            outs.append(a)
        elif tag == 'DRAW':
            if r[3] == 'red':
                if arr and 'post' not in arr[-1]:
                    arr[-1]['draws'].append(r[4])
                else:
                    viol.append(('C09.6', 'RED drew a random number outside an arrival'))
            elif r[3] == 'mon':
                mon_draws.append((r[1], r[2]))
        elif tag == 'ERR':
            viol.append(('C09.7/%s' % (r[4][1] if isinstance(r[4], tuple) and len(r[4]) > 1 else 'exc'), 'the run raised %r' % (r[4],)))
    if not w.quiescent:
        viol.append(('C09.7', 'the run did not reach quiescence'))
    accepted = [a for a in arr if 'out' in a]
    nontrivial = False
    # FIFO and the departure law
    order = sorted(accepted, key=lambda a: a['out'][0])
    if [a['pkt'] for a in order] != [a['pkt'] for a in accepted]:
        viol.append(('C09.1', 'departure order %r differs from arrival order %r' %
                     ([a['pkt'] for a in order], [a['pkt'] for a in accepted])))
    prev = None
    for a in accepted:
        start = a['t'] if prev is None else max(a['t'], prev['out'][1])
        if prev is not None and prev['out'][1] > a['t']:
            nontrivial = True
            stats['waited'] = 1
        if prev is not None and prev['out'][1] == a['t']:
            stats['arrival_coincides_with_departure'] = 1
        a['start'] = start
        a['idle_start'] = prev is None or prev['out'][0] < a['G']
        want = start + a['size'] * 8 / rate if rate else start
        if not rate:
            stats['rate_zero'] = 1
        if not close(a['out'][1], want, mode):
            viol.append(('C09.1', 'packet %s (size %d, arrived %r, previous departure %r) left at %r; line-rate law gives %r'
                         % (a['pkt'], a['size'], a['t'], prev['out'][1] if prev else None, a['out'][1], want)))
        prev = a
    red = case.get('red') if case.get('elem') == 'REDPort' else None
    # drop rule, counters, occupancy ledger in G order
    events = []
    for a in arr:
        events.append((a['G'], 'in', a))
        if 'out' in a:
            events.append((a['out'][0], 'out', a))
    events.sort(key=lambda e: e[0])
    held = 0
    n_in = n_drop = 0
    inside = []
    avg = 0.0
    for g, what, a in events:
        if what == 'out':
            held -= a['size']
            inside.remove(a)
            if a['out_post'][0] != held:
                viol.append(('C09.3', 'byte_size is %r when %s leaves at t=%r; bytes actually held: %r' %
                             (a['out_post'][0], a['pkt'], a['out'][1], held)))
            if a['out_post'][1] != a['t']:
                viol.append(('C09.4', 'packet %s carries per-hop stamp %r under %r; it arrived at this hop at %r' %
                             (a['pkt'], a['out_post'][1], case.get('element_id'), a['t'])))
            continue
        n_in += 1
        acc = 'out' in a
        if a['pre'] is not None and a['pre'][0] != held:
            viol.append(('C09.3', 'byte_size is %r before %s arrives at t=%r; bytes actually held: %r' %
                         (a['pre'][0], a['pkt'], a['t'], held)))
        if red is None:
            ql = case.get('qlimit')
            if ql is None:
                stats['unlimited'] = 1
                must_drop = must_accept = False
                must_accept = True
            elif case.get('limit_bytes'):
                must_drop = held + a['size'] > ql
                must_accept = not must_drop
                if held + a['size'] == ql:
                    stats['fill_exactly_at_limit'] = 1
                if must_drop:
                    stats['tail_drop_bytes'] = 1
            else:
                wmin = sum(1 for b in inside if b['start'] > a['t'] or (b['start'] == a['t'] and not b['idle_start']
                                                                        and _started_after(b, g, accepted)))
                wmax = sum(1 for b in inside if b['start'] > a['t'] or (b['start'] == a['t'] and
                                                                        _maybe_waiting(b, g, accepted)))
                must_drop = wmin >= ql - 1
                must_accept = wmax < ql - 1
                if wmin == ql - 1:
                    stats['fill_exactly_at_limit'] = 1
                if must_drop:
                    stats['tail_drop_packets'] = 1
            if must_drop and acc:
                viol.append(('C09.2', 'packet %s (size %d) arriving at t=%r was accepted although the limit %r (%s) was '
                             'reached: held %r bytes / waiting packets' %
                             (a['pkt'], a['size'], a['t'], ql, 'bytes' if case.get('limit_bytes') else 'packets', held)))
            if must_accept and not acc:
                viol.append(('C09.2', 'packet %s (size %d) arriving at t=%r was refused although the limit %r (%s) left '
                             'room: held %r bytes, %d inside' %
                             (a['pkt'], a['size'], a['t'], ql, 'bytes' if case.get('limit_bytes') else 'packets', held,
                              len(inside))))
        else:
            q = a['pre'][0] if red.get('limit_bytes') else a['pre'][1]
            alpha = 2.0 ** (-red.get('wf', 9))
            avg = avg * (1 - alpha) + q * alpha
            qlim = red['qlimit'] if red['qlimit'] is not None else float('inf')     # None: no hard limit
            near = any(0 < abs(avg - th) <= 1e-9 * max(1.0, abs(th)) for th in (red['min'], red['max'], qlim))
            if not near:
                if avg >= qlim:
                    stats['red_above_qlimit'] = 1
                    if acc:
                        viol.append(('C09.6', 'RED accepted %s although the average queue %r >= qlimit %r' %
                                     (a['pkt'], avg, red['qlimit'])))
                elif avg < red['min']:
                    stats['red_below_min'] = 1
                    if not acc:
                        viol.append(('C09.6', 'RED dropped %s although the average queue %r < min_threshold %r' %
                                     (a['pkt'], avg, red['min'])))
                else:
                    if avg >= red['max']:
                        pr = red['maxp']
                        stats['red_above_max'] = 1
                    else:
                        pr = (avg - red['min']) / (red['max'] - red['min']) * red['maxp']
                        stats['red_linear_region'] = 1
                    if len(a['draws']) != 1:
                        viol.append(('C09.6', 'RED consumed %d random draws for %s in the probabilistic region' %
                                     (len(a['draws']), a['pkt'])))
                    else:
                        u = a['draws'][0]
                        if abs(u - pr) > 1e-12:
                            if (u < pr) != (not acc):
                                viol.append(('C09.6', 'RED %s %s with average %r, drop probability %r and draw %r' %
                                             ('accepted' if acc else 'dropped', a['pkt'], avg, pr, u)))
                            if u < pr:
                                stats['red_drop_by_draw'] = 1
        if acc:
            held += a['size']
            inside.append(a)
        else:
            n_drop += 1
            nontrivial = True
        post = a.get('post')
        if post is None:
            viol.append(('C09.7', 'put() of %s did not return' % a['pkt']))
            continue
        if post[0] != n_in:
            viol.append(('C09.3', 'packets_received is %r after %d arrivals' % (post[0], n_in)))
        if post[1] != n_drop:
            viol.append(('C09.3', 'packets_dropped is %r after %d packets were refused (received %d = accepted %d + '
                         'dropped %d)' % (post[1], n_drop, n_in, n_in - n_drop, n_drop)))
        if post[2] != held:
            viol.append(('C09.3', 'byte_size is %r after %s arrived at t=%r; bytes actually held: %r' %
                         (post[2], a['pkt'], a['t'], held)))
    # monitor samples
    if mon is not None:
        samples = list(mon.sizes_byte)
        included = case['monitor'].get('included', False)
        for k, val in enumerate(samples):
            if k + 1 >= len(mon_draws):
                break
            g, t = mon_draws[k + 1]
            stats['monitor_sample'] = 1
            # occupancy by the ledger at action g
            ins = [a for a in accepted if a['G'] < g and a['out'][0] > g]
            h = sum(a['size'] for a in ins)
            cands = set()
            definite = [a for a in ins if a['start'] < t]
            amb = [a for a in ins if a['start'] == t]
            edge = any(a['start'] == t or a['out'][1] == t or a['t'] == t for a in accepted)
            if included:
                cands.add(h)
            else:
                svc = definite[0]['size'] if definite else 0
                cands.add(h - svc)
                for a in amb:
                    cands.add(h - a['size'])
                    cands.add(h)
            if edge:
                # either side of the coinciding arrival / start / departure
                for a in accepted:
                    if a['t'] == t or a['out'][1] == t or a['start'] == t:
                        for c in list(cands):
                            cands.add(c + a['size'])
                            cands.add(c - a['size'])
            if val not in cands:
                viol.append(('C09.5', 'PortMonitor sample #%d at t=%r is %r bytes (%s the packet in service); the port '
                             'held %r bytes, in service: %r' %
                             (k + 1, t, val, 'including' if included else 'excluding', h,
                              definite[0]['size'] if definite else None)))
    return viol, stats, nontrivial


def _started_after(b, g, accepted):
    """b was queued behind a busy port: it starts in the action in which its predecessor leaves."""
    i = accepted.index(b)
    if i == 0:
        return False
    return accepted[i - 1]['out'][0] > g


def _maybe_waiting(b, g, accepted):
    if b['idle_start']:
        return True            # dequeued by the port process in a later step of this instant
    return _started_after(b, g, accepted)


_gen_short = gen


def gen(rng, tier):
    case = _gen_short(rng, tier)
    if rng.random() < 0.2:
        case['twin'] = True
    if rng.random() < 1 / 80 and True and len(case.get('workload', [])) >= 3:
        # a long life: the same pattern of bursts, gaps and coincidences over and over, thousands of packets in all
        from ..net import stretch_workload
        case['workload'] = stretch_workload(case['workload'], 2600)
        case['long_life'] = True
    return case
