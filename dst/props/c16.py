"""C16 - TCP acknowledgements are cumulative and correct; all data gets through (DESIGN.md C16)."""
from ..core import digest_of, san
from ..net import NetWorld
from ..tcp import FaultLink, make_sender, MSS
from onl.netdev import Port, Wire
from onl.packet import Packet, TCPSink, TCPPacketGenerator, TCPReno, TCPCubic
from onl.packet.tcp_generator import Flow

ID = 'C16'
SHRINK_KEEP = ('d_data', 'd_ack', 'rtt_est', 'cwnd', 'ssthresh', 'chunk')
TIERS = {'quick': {'runs': 6000, 'budget_s': 30}, 'thorough': {'runs': 300000, 'budget_s': 600}}
RULE = ('(sink) arbitrary arrival sequences of MSS segments at a real TCPSink - permuted, duplicated, with gaps, first segment '
        'missing; (e2e) a real TCPPacketGenerator (Reno / CUBIC, 1-40 segments, random initial RTT estimate, cwnd, ssthresh) '
        'and a real TCPSink joined by two FaultLinks with a finite scripted fault budget by transmission index (drop, '
        'duplicate, extra delay = overtaking) on the data and the ACK direction, reliable afterwards; (clean) fault-free '
        'paths; non-trivial = at least one fault fired or the arrival sequence is not in order; distinct = history digest')
REAL = ['onl.packet.tcp_generator.TCPPacketGenerator/TCPReno/TCPCubic', 'onl.packet.tcp_sink.TCPSink', 'onl.utils.timer.Timer',
        'onl.sim kernel']
STUBS = ['FaultLink (the network between the two ends)', 'segment feeder of the sink scenarios']
ASSUMPTIONS = ['flow sizes are multiples of the MSS (512)', 'completion is demanded when the agenda empties or after a generous '
               'simulated-time bound; runs that hit the step cap before that bound are inconclusive, not violations',
               'the no-duplicate clause applies only to fault-free runs in which the path RTT was below the sender\'s RTO at '
               'every transmission']
PROBES = ['sub_barepath', 'sub_blackhole', 'second_connection', 'deadline_after_last_segment', 'synchronous_path', 'real_path', 'tail_drop_on_path', 'sub_sink', 'sub_e2e', 'sub_clean', 'rto_fired', 'fast_retransmit', 'ack_lost', 'data_lost', 'duplicate_delivered',
          'overtaken', 'cc_cubic', 'completed', 'first_segment_missing', 'sink_duplicate', 'sink_gap',
          'clean_precondition_held', 'flow_without_a_full_segment', 'flow_without_finish_time', 'sink_recording_options', 'application_chunks_not_in_mss_units', 'flow_object_used_by_an_earlier_run']


def gen(rng, tier):
    r = rng.random()
    if r < 0.25:
        n = rng.randint(1, 12)
        seq = list(range(n))
        arr = []
        style = rng.choice(['perm', 'dups', 'gaps', 'nofirst', 'mix'])
        if style == 'perm':
            rng.shuffle(seq)
            arr = seq
        elif style == 'dups':
            arr = [rng.randrange(n) for _ in range(n * 2)]
        elif style == 'gaps':
            arr = [s for s in seq if rng.random() < 0.7]
            rng.shuffle(arr)
            arr += [s for s in seq if rng.random() < 0.5]
        elif style == 'nofirst':
            arr = [s for s in seq if s != 0]
            rng.shuffle(arr)
            arr += [0] + [rng.randrange(n) for _ in range(3)]
        else:
            arr = [rng.randrange(n) for _ in range(rng.randint(1, 3 * n))]
        return {'sub': 'sink', 'arrivals': arr}
    if rng.random() < 0.08:
        return {'sub': 'barepath', 'cc': rng.choice(['reno', 'cubic']), 'segments': rng.randint(1, 24),
                'rtt_est': rng.choice([0.05, 0.05, 0.2, 1.0]), 'cwnd': rng.choice([MSS, 4 * MSS, 20 * MSS]),
                'ssthresh': rng.choice([65535, 2048]), 'port_rate': rng.choice([81920, 81920, 409600, 1 << 22]),
                'd_data': rng.choice([0.01, 0.05, 0.25]), 'd_ack': rng.choice([0.01, 0.05, 0.25]),
                'loss': rng.choice([0.1, 0.3, 0.5]), 'draws': [rng.random() for _ in range(rng.randint(3, 17))],
                'lossy_until': rng.choice([5, 20, 60])}
    n = rng.randint(1, 40 if tier == 'thorough' else 24)
    d1 = rng.choice([0.01, 0.05, 0.1, 0.25])
    d2 = rng.choice([0.01, 0.05, 0.1, 0.25])
    case = {'sub': 'e2e', 'cc': rng.choice(['reno', 'reno', 'cubic']), 'segments': n,
            'rtt_est': rng.choice([0.05, 0.2, 1.0, 1.0, 3.0, 100.0]), 'd_data': d1, 'd_ack': d2,
            'cwnd': rng.choice([MSS, MSS, 2 * MSS, 4 * MSS, 10 * MSS]), 'ssthresh': rng.choice([65535, 65535, 2048, 4096]),
            'faults_data': {}, 'faults_ack': {}}
    if rng.random() < 0.12:
        # a data-centre path: microsecond delays, flows long enough to leave slow start
        case['d_data'] = rng.choice([1e-6, 1e-5, 2.5e-5, 1e-4])
        case['d_ack'] = rng.choice([1e-6, 1e-5, 2.5e-5, 1e-4])
        case['segments'] = rng.choice([n, 140, 200, 260])
        case['rtt_est'] = rng.choice([0.001, 0.01, 1.0])
        case['short_path'] = True
    if rng.random() < 0.15 and not case.get('short_path'):
        # the two ends are joined through real elements: an output port (finite line rate, optional tail-drop limit) and
        # a wire per direction, in addition to the scripted fault links
        case['path'] = {'rate': rng.choice([100000, 400000, 1 << 20]), 'qlimit': rng.choice([None, None, 3, 5, 8]),
                        'wire': rng.choice([0, 0.01, 0.05]), 'wire_ack': rng.choice([0, 0.01, 0.05])}
        case['d_data'] = rng.choice([0, 0.01, 0.05])
        case['d_ack'] = rng.choice([0, 0.01, 0.05])
    if rng.random() < 0.03:
        # the peer never answers (every data packet is lost): nothing can complete, but the run must come to an end
        # without raising once the retransmission timeout has been doubled beyond every finite number
        return {'sub': 'blackhole', 'cc': case['cc'], 'segments': rng.randint(1, 3), 'rtt_est': case['rtt_est'],
                'cwnd': case['cwnd'], 'ssthresh': case['ssthresh'], 'd_data': 0.05, 'd_ack': 0.05,
                'faults_data': {}, 'faults_ack': {}}
    if rng.random() < 0.1 and not case.get('path'):
        # the two ends wired to each other directly: no delay at all, every hand-over happens inside put()
        case['sync_path'] = rng.choice(['both', 'both', 'data', 'ack'])
    if rng.random() < 0.15:
        # a second connection of the same kind in the same simulation (same sequence numbers, its own ends and paths)
        case['second_conn'] = {'segments': rng.randint(1, 12), 'd': rng.choice([0.01, 0.05, 0.25]),
                               'drop': sorted(set(rng.randint(0, 12) for _ in range(rng.randint(0, 3))))}
    if rng.random() < 0.08:
        # the flow's finish_time passes right after the last new segment went out: repairs must go on
        case['deadline'] = rng.choice([0.001, 0.01, 0.5])
    if rng.random() < 0.2:
        # the sink's recording switches (what it keeps for statistics, whether it narrates) must not touch the protocol
        case['sink_opts'] = [rng.random() < 0.5, rng.random() < 0.5, rng.random() < 0.5, rng.random() < 0.7,
                             rng.random() < 0.5]
    if rng.random() < 0.08 and not case.get('deadline'):
        case['reuse_flow'] = True
    if rng.random() < 0.12:
        # the application hands its data over in chunks of its own size (Flow.size_dist), not in MSS units
        case['chunk'] = rng.choice([100, 200, 700, 1000, 1500, 512, 1024, 4000])
    if rng.random() < 0.05:
        # a flow without a single full segment: size 0, or less than one MSS - nothing may be sent, nothing invented
        case['segments'] = 0
        case['tail'] = rng.choice([0, 0, 100, MSS - 1])
        case.pop('deadline', None)
    if rng.random() < 0.1 and not case.get('deadline'):
        # a Flow built without a finish time (the dataclass default): it simply never expires
        case['no_finish'] = True
    if r < 0.4 and not case.get('path'):
        case['sub'] = 'clean'
        if not case.get('short_path'):
            case['rtt_est'] = rng.choice([0.3, 1.0, 3.0])
        return case
    budget = rng.randint(1, 12)
    for _ in range(budget):
        which = 'faults_data' if rng.random() < 0.6 else 'faults_ack'
        idx = rng.randint(0, min(3 * n, 40))
        act = rng.choice(['drop', 'drop', 'drop', 'dup', 'delay:%g' % rng.choice([0.3, 1.0, 2.5])])
        case[which][str(idx)] = act
    return case


def valid(case):
    if case.get('sub') == 'sink':
        return all(isinstance(x, int) and x >= 0 for x in case.get('arrivals', []))
    return case.get('segments', 1) >= 0 and (case.get('chunk') is None or case['chunk'] >= 1)


class AckRec:
    def __init__(self, w):
        self.w = w

    def put(self, p):
        self.w.rec('ACK', p.ack, p.packet_id, p.flow_id, san(p.time))


class Prefixed:
    """The world as seen by a second connection: same simulation, record tags with a suffix (kept out of the checks of
    the connection under observation)."""

    def __init__(self, w, suffix):
        self.w, self.env, self.suffix = w, w.env, suffix

    def rec(self, tag, *rest):
        self.w.rec(tag + self.suffix, *rest)


class SinkTap:
    """Records what actually reaches the sink when real elements sit between the fault link and the sink."""

    def __init__(self, w, sink):
        self.w, self.sink = w, sink

    def put(self, p):
        self.w.rec('RXS', 'data', None, p.packet_id)
        self.sink.put(p)


class DropWatch:
    """In front of the path's output port: notes tail drops (they are faults of the path, finitely many)."""

    def __init__(self, w, port):
        self.w, self.port = w, port

    def put(self, p):
        before = self.port.packets_dropped
        self.port.put(p)
        if self.port.packets_dropped != before:
            self.w.rec('PD', p.packet_id)


def prefix_len(have):
    n = 0
    while n in have:
        n += 1
    return n * MSS


def run_sink(w, case):
    viol, stats = [], {'sub_sink': 1}
    env = w.env
    sink = TCPSink(env)
    sink.out = AckRec(w)
    arr = case.get('arrivals', [])
    have = set()
    if arr and arr[0] != 0:
        stats['first_segment_missing'] = 1

    def feeder():
        for k, s in enumerate(arr):
            p = Packet(env.now, MSS, s * MSS, src='h0', flow_id=1)
            n0 = len(w.log)
            if s in have:
                stats['sink_duplicate'] = 1
            have.add(s)
            sink.put(p)
            acks = [r for r in w.log[n0:] if r[0] == 'ACK']
            want = prefix_len(have)
            if want < (max(have) + 1) * MSS:
                stats['sink_gap'] = 1
            if len(acks) != 1:
                viol.append(('C16.1', 'segment %d elicited %d ACKs' % (s, len(acks))))
            elif acks[0][3] != want:
                viol.append(('C16.1', 'after segments %r the sink acknowledged %r; the contiguous prefix it holds is %r' %
                             (arr[:k + 1], acks[0][3], want)))
                return
            elif acks[0][5] != 10001:
                viol.append(('C16.1', 'ACK carries flow id %r, expected data flow id + 10000' % (acks[0][5],)))
            yield env.timeout(0.125)
    env.process(feeder())
    w.run(max_steps=20000)
    nontrivial = arr != sorted(set(arr))
    return viol, stats, nontrivial


class BlackHole:
    def put(self, p):
        pass


def run_blackhole(w, case):
    viol, stats = [], {'sub_blackhole': 1}
    sender, flow = make_sender(w, case, BlackHole())
    w.run(max_steps=200000)
    for r in w.log:
        if r[0] == 'ERR':
            viol.append(('C16.2/%s' % (r[4][1] if isinstance(r[4], tuple) and len(r[4]) > 1 else 'exc'),
                         'the TCP run raised %r' % (r[4],)))
            return viol, stats, True
    if not w.quiescent:
        viol.append(('C16.2', 'a sender whose peer never answers keeps the simulation alive for ever (200000 steps, now=%r)'
                     % (w.env.now,)))
    return viol, stats, True


def run_barepath(w, case):
    """Sender, sink and path built from library elements only: the sender's next hop is a real Port, then a Wire that loses
    finitely many packets (scripted draws, loss switched off after `lossy_until`), the TCPSink, a Wire back. Nothing is
    tapped; what counts is the end: everything delivered and acknowledged, nothing raised."""
    import onl.netdev.wire as wire_mod
    viol, stats = [], {'sub_barepath': 1}
    env = w.env
    n = case.get('segments', 1)
    size = n * MSS
    flow = Flow(flow_id=1, src='h0', dst='h1', finish_time=None, size=size)
    cc = TCPCubic() if case.get('cc') == 'cubic' else TCPReno(mss=MSS, cwnd=case.get('cwnd', MSS), ssthresh=case.get('ssthresh', 65535))
    sender = TCPPacketGenerator(env, flow, cc, element_id='h0', rtt_estimate=case.get('rtt_est', 1.0))
    sink = TCPSink(env)
    port = Port(env, case.get('port_rate', 100000), None, False, 'p0')
    draws = list(case.get('draws') or [0.9])
    state = {'i': 0}

    class Rnd:
        def uniform(self, a, b):
            v = draws[state['i'] % len(draws)]
            state['i'] += 1
            return a + (b - a) * v

        def __getattr__(self, name):
            import random as _r
            return getattr(_r, name)
    saved = wire_mod.random
    wire_mod.random = Rnd()
    try:
        wd = Wire(env, lambda: case.get('d_data', 0.05), case.get('loss', 0.3))
        wa = Wire(env, lambda: case.get('d_ack', 0.05))
        sender.out = port
        port.out = wd
        wd.out = sink
        sink.out = wa
        wa.out = sender

        def heal():
            yield env.timeout(case.get('lossy_until', 20))
            wd.loss_rate = None
        env.process(heal())
        w.run(max_steps=120000)
    finally:
        wire_mod.random = saved
    for r in w.log:
        if r[0] == 'ERR':
            viol.append(('C16.2/%s' % (r[4][1] if isinstance(r[4], tuple) and len(r[4]) > 1 else 'exc'),
                         'the TCP run (library elements only) raised %r' % (r[4],)))
            return viol, stats, True
    done = sink.recv_buffer == [[0, size]] and sender.last_ack == size
    if done:
        stats['completed'] = 1
    elif w.quiescent:
        viol.append(('C16.2', 'library elements only (sender -> Port -> lossy Wire -> sink -> Wire -> sender): the simulation ran '
                     'out of events with the transfer incomplete: sink holds %r, acknowledged mark %r, flow size %r' %
                     (sink.recv_buffer, sender.last_ack, size)))
    return viol, stats, True


def run_e2e(w, case):
    viol, stats = [], {'sub_' + case['sub']: 1}
    env = w.env
    n = case.get('segments', 1)
    size = n * MSS
    clean = case['sub'] == 'clean'
    so = case.get('sink_opts')
    if so:
        stats['sink_recording_options'] = 1
        sink = TCPSink(env, rec_arrivals=so[0], absolute_arrivals=so[1], rec_waits=so[2], rec_flow_ids=so[3], debug=so[4])
    else:
        sink = TCPSink(env)
    fd = {} if clean else case.get('faults_data', {})
    fa = {} if clean else case.get('faults_ack', {})
    path = case.get('path')
    port = None
    if path:
        stats['real_path'] = 1
        at_sink = SinkTap(w, sink)
        wire_d = Wire(env, lambda: path.get('wire', 0.01))
        wire_d.out = at_sink
        port = Port(env, path.get('rate', 400000), path.get('qlimit'), False, 'p0')
        port.out = wire_d
        data_link = FaultLink(w, 'data', DropWatch(w, port), fd, case.get('d_data', 0.05))
        sender, flow = make_sender(w, case, data_link)
        wire_a = Wire(env, lambda: path.get('wire_ack', 0.01))
        wire_a.out = sender
        ack_link = FaultLink(w, 'ack', wire_a, fa, case.get('d_ack', 0.05))
    else:
        sp = case.get('sync_path')
        if sp:
            stats['synchronous_path'] = 1
        data_link = FaultLink(w, 'data', sink, fd, case.get('d_data', 0.05), sync=sp in ('both', 'data'))
        sender, flow = make_sender(w, case, data_link)
        ack_link = FaultLink(w, 'ack', sender, fa, case.get('d_ack', 0.05), sync=sp in ('both', 'ack'))
    sink.out = ack_link
    if case.get('second_conn'):
        sc = case['second_conn']
        w2 = Prefixed(w, '2')
        sink2 = TCPSink(env)
        c2 = dict(case)
        c2.update({'segments': sc.get('segments', 3), 'fid': 2, 'tail': 0, 'pace': None, 'finish': 1e12})
        dl2 = FaultLink(w2, 'data', sink2, dict((str(k), 'drop') for k in sc.get('drop', [])), sc.get('d', 0.05))
        sender2, _f2 = make_sender(w2, c2, dl2)
        sink2.out = FaultLink(w2, 'ack', sender2, {}, sc.get('d', 0.05))
        stats['second_connection'] = 1
    if case.get('cc') == 'cubic':
        stats['cc_cubic'] = 1
    w.run(max_steps=60000)
    for r in w.log:
        if r[0] == 'ERR':
            viol.append(('C16.2/%s' % (r[4][1] if isinstance(r[4], tuple) and len(r[4]) > 1 else 'exc'),
                         'the TCP run raised %r' % (r[4],)))
            return viol, stats, True
    # (a) every ACK the sink sent is the contiguous prefix of what had arrived
    have = set()
    last_ack = 0
    pending = None
    last_fault_t = 0.0
    max_rto = 0.0
    seen_seq = {}
    rtt_ok = True
    after_end = False
    rtt = case.get('d_data', 0.05) + case.get('d_ack', 0.05)
    for r in w.log:
        tag = r[0]
        if tag == ('RXS' if path else 'RX') and r[3] == 'data':
            have.add(r[5] // MSS)
            pending = prefix_len(have)
        elif tag == 'PD':
            last_fault_t = r[2]
            stats['tail_drop_on_path'] = 1
        elif tag == 'TX' and r[3] == 'ack':
            if pending is None:
                viol.append(('C16.1', 'the sink sent an ACK without receiving a segment'))
            elif r[5] != pending:
                viol.append(('C16.1', 'the sink acknowledged %r; the contiguous prefix it holds is %r' % (r[5], pending)))
                break
            if r[5] < last_ack:
                viol.append(('C16.1', 'ACK number decreased from %r to %r' % (last_ack, r[5])))
            last_ack = r[5]
            pending = None
            if r[7] != 'ok':
                last_fault_t = r[2]
                stats['ack_lost' if r[7] == 'drop' else ('duplicate_delivered' if r[7] == 'dup' else 'overtaken')] = 1
        elif tag == 'TX' and r[3] == 'data':
            if r[7] != 'ok':
                last_fault_t = r[2]
                stats['data_lost' if r[7] == 'drop' else ('duplicate_delivered' if r[7] == 'dup' else 'overtaken')] = 1
        elif tag == 'SEG':
            if r[8] >= size and not after_end:
                after_end = True
                viol.append(('C16.4', 'segment %r was (re)transmitted at t=%r although the sender\'s acknowledged mark had '
                             'already reached the end of the data (%r)' % (r[3], r[2], size)))
            seen_seq[r[3]] = seen_seq.get(r[3], 0) + 1
            max_rto = max(max_rto, r[12])
            if not (rtt < r[12]):
                rtt_ok = False
        elif tag == 'TO' and r[4] == 'enter':
            stats['rto_fired'] = 1
    # (b) completion
    done = sink.recv_buffer == [[0, size]] and sender.last_ack == size
    if n == 0:
        stats['flow_without_a_full_segment'] = 1
        done = not have and sender.last_ack == 0
        sent = [r for r in w.log if r[0] == 'SEG']
        if sent:
            viol.append(('C16.4', 'a flow of %d bytes (no full segment) made the sender transmit %d segments, the first '
                         'with sequence number %r' % (case.get('tail', 0), len(sent), sent[0][3])))
    if case.get('no_finish'):
        stats['flow_without_finish_time'] = 1
    if case.get('chunk'):
        stats['application_chunks_not_in_mss_units'] = 1
    bound = last_fault_t + 64 * n * max(max_rto, rtt, 1.0)
    if done:
        stats['completed'] = 1
    elif w.quiescent:
        viol.append(('C16.2', 'the simulation ran out of events with the transfer incomplete: sink holds %r, sender\'s '
                     'acknowledged mark is %r, flow size %r' % (sink.recv_buffer, sender.last_ack, size)))
    elif env.now >= bound:
        viol.append(('C16.2', 'transfer still incomplete at t=%r (last fault at %r, bound %r): sink holds %r, acknowledged '
                     'mark %r of %r' % (env.now, last_fault_t, bound, sink.recv_buffer, sender.last_ack, size)))
    else:
        stats['inconclusive'] = 1
    # (c) no duplicate transmissions on a clean path with RTT < RTO
    if clean and rtt_ok:
        stats['clean_precondition_held'] = 1
        dup = [s for s, c in seen_seq.items() if c > 1]
        if dup:
            viol.append(('C16.3', 'loss-free path with RTT %r below the RTO at every transmission, yet segment(s) %r were '
                         'transmitted more than once' % (rtt, sorted(dup)[:5])))
    if any(c > 1 for c in seen_seq.values()) and not stats.get('rto_fired'):
        stats['fast_retransmit'] = 1
    nontrivial = bool(fd or fa) and any(r[0] == 'TX' and r[7] != 'ok' for r in w.log)
    if port is not None and w.quiescent and (len(port.store.items) or port.byte_size):
        viol.append(('C16.2', 'the output port on the path still holds %d packets / %r bytes after the run' %
                     (len(port.store.items), port.byte_size)))
    return viol, stats, nontrivial or clean or bool(stats.get('tail_drop_on_path'))


def run(case):
    w = NetWorld()
    if case.get('sub') == 'sink':
        viol, stats, nt = run_sink(w, case)
    elif case.get('sub') == 'blackhole':
        viol, stats, nt = run_blackhole(w, case)
    elif case.get('sub') == 'barepath':
        viol, stats, nt = run_barepath(w, case)
    else:
        if case.get('deadline') and case.get('sub') != 'clean' and 'finish' not in case:
            # dry run: when did the last new segment go out for the first time?
            dry = NetWorld()
            run_e2e(dry, case)
            last = (case.get('segments', 1) - 1) * MSS
            first = [r[2] for r in dry.log if r[0] == 'SEG' and r[3] == last]
            if first:
                case = dict(case)
                case['finish'] = first[0] + case['deadline']
        if case.get('reuse_flow'):
            # the same Flow object described an earlier, quicker transfer in this interpreter (a loss-free run over a
            # short path): nothing of that run may stick to it
            from .. import tcp as _tcp
            _tcp._HELD.clear()
            pre = dict(case)
            pre.update({'sub': 'clean', 'faults_data': {}, 'faults_ack': {}, 'd_data': 0.001, 'd_ack': 0.001})
            for k_ in ('path', 'sync_path', 'second_conn', 'deadline', 'finish'):
                pre.pop(k_, None)
            run_e2e(NetWorld(), pre)
        viol, stats, nt = run_e2e(w, case)
        if case.get('reuse_flow'):
            stats['flow_object_used_by_an_earlier_run'] = 1
            _tcp._HELD.clear()
        if 'finish' in case:
            stats['deadline_after_last_segment'] = 1
    for r in w.log:
        if r[0] == 'ERR' and not any(v[0].startswith('C16.2/') for v in viol):
            viol.append(('C16.2/%s' % (r[4][1] if isinstance(r[4], tuple) and len(r[4]) > 1 else 'exc'),
                         'the run raised %r' % (r[4],)))
            break
    res = {'viol': viol, 'digest': digest_of(w.log), 'nontrivial': nt, 'stats': stats,
           'simtime': float(w.env.now), 'steps': getattr(w, 'steps', 0)}
    if case.get('_excerpt'):
        res['excerpt'] = [repr(r) for r in w.log[-80:]]
    return res
