"""C02 - every waiter gets an event's outcome exactly once; failures are never lost (DESIGN.md C02)."""
from ..core import digest_of, san
from ..kprog import Prof, gen_program, setup_world, drive, excerpt, rv

ID = 'C02'
TIERS = {'quick': {'runs': 24000, 'budget_s': 30}, 'thorough': {'runs': 1500000, 'budget_s': 600}}
RULE = ('generated kernel programs emphasising value-carrying timeouts, several waiters (processes and plain '
        'callbacks) per shared event, succeed/fail by other processes, joins on children that return or raise, '
        'handlers present/absent, yields of already processed events, second trigger attempts; non-trivial = '
        'some event processed with >=2 registered waiters or a failed event processed; distinct = history digest')
REAL = ['onl.sim.core.Environment', 'onl.sim.events.Event/Timeout/Process/Initialize/Interruption']
STUBS = ['process bodies and plain callbacks are harness code']
ASSUMPTIONS = ['registration order of process waiters is the G order of the bodies\' "about to yield" logs',
               'no condition events in C02 programs (C05 owns them)']
PROBES = ['thousand_processed_events_consumed_back_to_back', 'failure_of_a_kernel_signal_class', 'conditions_among_waiters', 'chained_trigger', 'trigger_door_on_triggered_event', 'driven_by_run_until_event', 'until_event_failed', 'event_ge3_waiters', 'failed_mixed_handling', 'reyield_processed_failed', 'child_failure_no_joiner',
          'double_trigger', 'detached_by_interrupt', 'unhandled_escape', 'reyield_processed_ok']


def gen(rng, tier):
    big = tier == 'thorough' and rng.random() < 0.3
    prof = Prof(rng)
    prof.pool = rng.choice(['GRID', 'GRID', 'INTS', 'FLOAT'])
    prof.max_procs = rng.choice([2, 4, 6]) + (3 if big else 0)
    prof.max_ops = rng.choice([3, 5, 8]) + (4 if big else 0)
    prof.max_shared = rng.choice([1, 2, 3])
    w = prof.w
    w['timeout'] = rng.choice([2, 4])
    w['wait'] = rng.choice([3, 5])
    w['succeed'] = rng.choice([1, 2, 3])
    w['fail'] = rng.choice([0, 1, 2, 3])
    w['spawn'] = rng.choice([0, 1, 2])
    w['join'] = rng.choice([0, 2, 3])
    w['interrupt'] = rng.choice([0, 0, 1, 2])
    w['raise'] = rng.choice([0, 1, 2])
    w['ret'] = rng.choice([0, 1, 2])
    w['addcb'] = rng.choice([0, 1, 2])
    # conditions are waiters too: a failing operand that its condition no longer watches must still escape
    w['cond'] = rng.choice([0, 0, 1, 2])
    prof.depth = rng.choice([0, 1])
    prof.top_cbs = rng.choice([0, 1, 3])
    prof.handlers = rng.choice([['cont', 'rewait', 'ret', 'other', 'raise', 'none'],
                                ['cont', 'cont', 'rewait', 'none'], ['none', 'cont']])
    case = gen_program(rng, prof)
    if rng.random() < 0.3:
        # driven through run(until=event) / run(until=number) as well: the until-event may succeed, fail or never occur
        plan = []
        labels = list(case['shared']) + [it['id'] for it in case['setup'] if it.get('k') in ('proc', 'timeout')]
        for _ in range(rng.randint(1, 3)):
            r = rng.random()
            if r < 0.6 and labels:
                plan.append(['until_ev', rng.choice(labels)])
            elif r < 0.8:
                plan.append(['steps', rng.randint(1, 6)])
            else:
                plan.append(['until', case['t0'] + rng.choice([0.5, 1, 2, 3])])
        plan.append(['run'])
        case['drive'] = plan
    if rng.random() < 1 / 400 and case.get('drive', [['run']]) == [['run']]:
        # a long tail: one process collects the outcomes of more than a thousand children that have all finished already
        # (returned or raised), one join after the other without the clock moving
        n = rng.randint(1050, 1400)
        kids, joins = [], []
        for j in range(n):
            cid = 'jk%d' % j
            if rng.random() < 0.2:
                kids.append({'k': 'proc', 'id': cid, 'ops': [{'op': 'raise', 'exc': ['KeyError', [j]]}]})
            else:
                kids.append({'k': 'proc', 'id': cid, 'ops': [{'op': 'ret', 'v': 100000 + j}]})
            joins.append({'op': 'join', 'p': cid, 'h': 'cont'})
        case['setup'] = case['setup'] + [{'k': 'proc', 'id': 'jc', 'ops': [{'op': 'timeout', 'd': 1, 'v': 0, 'h': 'cont'}] + joins}] + kids
        case['many_joins'] = True
    if rng.random() < 0.08:
        # the uncaught exception of a process (or the failure of a shared event) is of one of the kernel's own signal
        # classes, and the simulation is driven by the real run() / run(until=t): the failure must come out of run()
        # like any other, not be taken for "nothing left" or for the stop request
        case['ctl_exc'] = True

        def walk(ops):
            for op in ops:
                if op.get('exc') and rng.random() < 0.6:
                    op['exc'] = ['StopSimulation', [rng.randint(100, 999)]] if rng.random() < 0.5 else ['EmptySchedule', []]
                if op.get('op') == 'spawn':
                    walk(op.get('ops', []))
        for it in case['setup']:
            if it.get('k') == 'proc':
                walk(it.get('ops', []))
        t, plan = case['t0'], []
        for _ in range(rng.randint(0, 3)):
            t = t + rng.choice([0.5, 1, 2, 3])
            plan.append(['until', t])
        case['drive'] = plan + [['real_run'], ['real_run'], ['real_run'], ['run']]
    return case


def _values(case):
    """label -> value for every timeout the program can create."""
    vals = {}

    def walk(ops, pid):
        for i, op in enumerate(ops):
            k = op.get('op')
            if k in ('timeout', 'fire'):
                vals['%s.%d' % (pid, i)] = san(rv(op.get('v')))
            elif k == 'spawn':
                walk(op.get('ops', []), op['id'])
    for it in case.get('setup', []):
        if it.get('k') == 'proc':
            walk(it.get('ops', []), it['id'])
        elif it.get('k') == 'timeout':
            vals[it['id']] = san(rv(it.get('v')))
    return vals


def check(log, tvals, final, quiescent, cond_handling=None):
    viol = []
    stats = {}
    expected = {}        # label -> ('ok', v) | ('exc', type, args)
    regs = {}            # label -> list of ['proc', pid, G] / ['cb', cbid, defuse, G] in registration order
    waiting = {}         # pid -> (label, opi) the registration currently held
    lasty = {}           # pid -> last Y record
    ended = {}           # pid -> outcome of body
    nontrivial = False
    step_of_P = {}       # label -> (G, step, expected list)
    obs = {}             # label -> observed invocations after its P, in order
    order_open = None    # label whose callbacks are being run (between its P and the next P / step end)
    escapes = {}         # step -> exc
    expect_escape = {}   # step -> (label, exc)
    until_failed = set()
    lenient_steps = set()

    for lb, v in tvals.items():
        expected[lb] = ('ok', v)

    def exp_for(lb):
        if lb in expected:
            return expected[lb]
        if '.h' in lb:
            return ('ok', 'h')
        return None

    for r in log:
        tag = r[0]
        if tag == 'O':
            what = r[6]
            if what in ('succeed', 'fail'):
                _, g, now, st, pid, opi, _, ev, out, before, after = r
                if before[0]:
                    stats['double_trigger'] = 1
                    if out != 'RuntimeError':
                        viol.append(('C02.4', 'second %s() of %s did not raise RuntimeError' % (what, ev)))
                    if after != before:
                        viol.append(('C02.4', 'refused %s() of %s changed its outcome from %r to %r' %
                                     (what, ev, before, after)))
                else:
                    if out != 'ok':
                        viol.append(('C02.4', 'first %s() of untriggered %s raised %s' % (what, ev, out)))
                    elif what == 'succeed':
                        expected[ev] = ('ok', after[2])
                    else:
                        expected[ev] = ('exc', after[2][1], after[2][2])
            elif what == 'chained':
                # dst.trigger(src) ran as a callback of src: dst carries src's outcome from here on
                e = exp_for(r[8])
                if e is not None:
                    expected[r[7]] = e
                    stats['chained_trigger'] = 1
            elif what == 'chain-again':
                _, g, now, st, _, _, _, ev, src, out, before, after, again = r
                stats['trigger_door_on_triggered_event'] = 1
                if after != before or again:
                    viol.append(('C02.4', 'trigger() (the callback form of succeed/fail) on the already triggered %s '
                                 '%s: an event can be triggered only once' %
                                 (ev, 'scheduled it a second time' if after == before else
                                  'changed its outcome from %r to %r' % (before, after))))
            elif what == 'addcb':
                _, g, now, st, pid, opi, _, lb, cbid, mode = r
                if mode != 'already-processed':
                    regs.setdefault(lb, []).append(['cb', cbid, mode == 'defuse', g])
        elif tag == 'Y':
            _, g, now, st, pid, opi, lb, processed = r
            lasty[pid] = r
            if not processed:
                regs.setdefault(lb, []).append(['proc', pid, g])
                waiting[pid] = lb
        elif tag == 'R':
            _, g, now, st, pid, opi, lb, how, data, same = r
            y = lasty.get(pid)
            if how == 'intr':
                # delivered interrupt: the process is detached from what it was waiting for
                wl = waiting.pop(pid, None)
                if wl is not None:
                    lst = regs.get(wl, [])
                    for k in range(len(lst) - 1, -1, -1):
                        if lst[k][0] == 'proc' and lst[k][1] == pid:
                            del lst[k]
                            stats['detached_by_interrupt'] = 1
                            break
                continue
            if y is not None and y[7]:
                # yielded an already processed event: continues at once with that outcome
                if g != y[1] + 1:
                    viol.append(('C02.3', '%s yielded already processed %s but was not continued at once' % (pid, lb)))
                e = exp_for(lb)
                if e is not None:
                    _cmp_outcome(viol, 'C02.3', pid, lb, e, how, data, same)
                    if e[0] == 'exc':
                        stats['reyield_processed_failed'] = 1
                    else:
                        stats['reyield_processed_ok'] = 1
                continue
            waiting.pop(pid, None)
            obs.setdefault(lb, []).append(('proc', pid, how, data, same, st))
        elif tag == 'C':
            _, g, now, st, cbid, lb, ok, value = r
            obs.setdefault(lb, []).append(('cb', cbid, ok, value, None, st))
        elif tag == 'P':
            _, g, lb, now, st, ok, val = r
            lst = list(regs.get(lb, []))
            step_of_P[lb] = (g, st, lst)
            regs[lb] = []
            e = exp_for(lb)
            if e is None and cond_handling is not None and ok is False and isinstance(val, tuple):
                e = expected[lb] = ('exc', val[1], val[2])   # a failed condition forwards an operand's failure
            if e is not None:
                # the outcome the kernel presents must be the one the event was triggered with
                if e[0] == 'ok' and not (ok is True and val == e[1]):
                    viol.append(('C02.2', '%s triggered with value %r is processed as ok=%r value=%r' %
                                 (lb, e[1], ok, val)))
                if e[0] == 'exc' and not (ok is False and val[0] == 'exc' and val[1] == e[1] and val[2] == e[2]):
                    viol.append(('C02.2', '%s failed with %s%r is processed as ok=%r value=%r' %
                                 (lb, e[1], e[2], ok, val)))
            if len(lst) >= 2:
                nontrivial = True
            if len(lst) >= 3:
                stats['event_ge3_waiters'] = 1
            if e is not None and e[0] == 'exc':
                nontrivial = True
                handled = any(x[0] == 'proc' or (x[0] == 'cb' and x[2]) for x in lst)
                if lb.startswith('Interruption#'):
                    handled = True      # the kernel delivers it to its victim; what may escape is the victim's own end
                if not handled and cond_handling is not None:
                    ch = cond_handling(lb, g)
                    if ch == 'handled':
                        handled = True
                    elif ch == 'lenient':
                        lenient_steps.add(st)
                        handled = True
                if not handled:
                    expect_escape[st] = (lb, e)
                if any(x[0] == 'proc' for x in lst) and any(x[0] == 'cb' and not x[2] for x in lst):
                    stats['failed_mixed_handling'] = 1
        elif tag == 'E':
            _, g, now, st, pid, how, data = r
            if how == 'ret':
                expected[pid] = ('ok', data)
            else:
                expected[pid] = ('exc', data[0], data[1])
            ended[pid] = g
        elif tag == 'X':
            escapes[r[2]] = r[3]
        elif tag == 'D' and r[4] == 'until_ev':
            stats['driven_by_run_until_event'] = 1
            if r[6] == 'exc':
                stats['until_event_failed'] = 1
                # run(until=ev) reports the failure of ev itself by raising it: not an "unhandled failure" escape
                until_failed.add(r[5])

    # 1+2: every registered waiter invoked exactly once, in registration order, with the outcome
    for lb, (g, st, lst) in step_of_P.items():
        got = obs.get(lb, [])
        want = [(x[0], x[1]) for x in lst]
        have = [(x[0], x[1]) for x in got]
        if want != have:
            viol.append(('C02.1', 'when %s was processed the registered waiters %s should each be invoked once in '
                         'that order; observed %s' % (lb, want, have)))
            continue
        e = exp_for(lb)
        for x in got:
            if x[5] != st:
                viol.append(('C02.1', 'waiter %s of %s invoked in kernel step %s, not in the step (%s) in which the '
                             'event was processed' % (x[1], lb, x[5], st)))
            if e is None:
                continue
            if x[0] == 'proc':
                _cmp_outcome(viol, 'C02.2', x[1], lb, e, x[2], x[3], x[4])
            else:
                if e[0] == 'ok' and not (x[2] is True and x[3] == e[1]):
                    viol.append(('C02.2', 'callback %s of %s saw ok=%r value=%r, expected value %r' %
                                 (x[1], lb, x[2], x[3], e[1])))
                if e[0] == 'exc' and not (x[2] is False and x[3][0] == 'exc' and x[3][1] == e[1] and x[3][2] == e[2]):
                    viol.append(('C02.2', 'callback %s of %s saw ok=%r value=%r, expected failure %s%r' %
                                 (x[1], lb, x[2], x[3], e[1], e[2])))
    # invocations for events that were never processed
    for lb, got in obs.items():
        if lb not in step_of_P:
            viol.append(('C02.1', 'waiters %s were invoked for %s which was never processed' %
                         ([(x[0], x[1]) for x in got], lb)))
    # 5: process termination carries the body's outcome
    for pid, (alive, ok, val) in final.items():
        e = expected.get(pid)
        if pid in ended:
            if alive:
                viol.append(('C02.5', 'process %s ended but is still reported alive' % pid))
            elif e[0] == 'ok' and not (ok is True and val == e[1]):
                viol.append(('C02.5', 'process %s returned %r but Process.ok/value = %r/%r' % (pid, e[1], ok, val)))
            elif e[0] == 'exc' and not (ok is False and val[0] == 'exc' and val[1] == e[1] and val[2] == e[2]):
                viol.append(('C02.5', 'process %s raised %s%r but Process.ok/value = %r/%r' % (pid, e[1], e[2], ok, val)))
            if pid not in step_of_P and quiescent:
                viol.append(('C02.5', 'process %s ended but its termination was never processed' % pid))
    # 6: unhandled failures escape exactly then and there
    for st, (lb, e) in expect_escape.items():
        stats['unhandled_escape'] = 1
        if lb in ended:
            stats['child_failure_no_joiner'] = 1
        x = escapes.get(st)
        if x is None:
            viol.append(('C02.6', 'failed %s (%s%r) had no handling waiter but step() did not raise' % (lb, e[1], e[2])))
        elif not (x[0] == 'exc' and x[1] == e[1] and x[2] == e[2]):
            viol.append(('C02.6', 'unhandled failure of %s (%s%r) escaped as %r' % (lb, e[1], e[2], x)))
    for lb in until_failed:
        if lb in step_of_P:
            lenient_steps.add(step_of_P[lb][1])
    for st, x in escapes.items():
        if st not in expect_escape and st not in lenient_steps:
            viol.append(('C02.6', 'step %d raised %r although no unhandled failed event was processed in it' % (st, x)))
    return viol, stats, nontrivial


def _cmp_outcome(viol, clause, pid, lb, e, how, data, same):
    if e[0] == 'ok':
        if how != 'ok' or data != e[1]:
            viol.append((clause, '%s waiting on %s (value %r) received %s %r' % (pid, lb, e[1], how, data)))
        elif same is False:
            viol.append((clause, '%s received an object that is not the value of %s' % (pid, lb)))
    else:
        if how != 'exc' or data[0] != e[1] or data[1] != e[2]:
            viol.append((clause, '%s waiting on failed %s (%s%r) received %s %r' % (pid, lb, e[1], e[2], how, data)))


def check_real_runs(log):
    """Every call of the real run() during which an unhandled failure escaped step() must have raised exactly that failure
    (C02: 'makes run()/step() raise that exception at that instant instead of continuing silently')."""
    viol = []
    xs = []
    for r in log:
        if r[0] == 'X':
            xs.append(r)
        elif r[0] == 'D' and r[4] in ('until', 'run'):
            what, arg, how, data = r[4], r[5], r[6], r[7]
            if xs:
                x = xs[0]
                if how == 'ret':
                    viol.append(('C02.6', 'the failure %r escaped step() at kernel step %d, but run(%s) returned %r as if '
                                 'nothing had happened' % (x[3], x[2], '' if what == 'run' else 'until=%r' % (arg,), data)))
                elif how == 'exc' and tuple(data[:3]) != tuple(x[3][:3]):
                    viol.append(('C02.6', 'the failure %r escaped step() at kernel step %d, but run(%s) raised %r instead' %
                                 (x[3], x[2], '' if what == 'run' else 'until=%r' % (arg,), data)))
            xs = []
    return viol


def run(case):
    from ..core import san
    w = setup_world(case)
    env = w.env
    cap = 14000 if case.get('many_joins') else 4000
    steps = drive(w, case.get('drive', [['run']]), max_steps=cap)
    final = {}
    for pid, p in w.procs.items():
        alive = p.is_alive
        try:
            ok, val = (p.ok, san(p.value)) if not alive else (None, None)
        except AttributeError:
            ok, val = None, '<unavailable>'
        final[pid] = (alive, ok, val)
    quiescent = env.peek() == float('inf') and steps < cap
    ch = None
    if any(r[0] == 'K' for r in env.log):
        # how a condition treats the failure of an operand (handled / unhandled / lenient) comes from the C05 model
        from . import c05
        _v5, _s5, _nt5, ch = c05.check(env.log, case, [])
    viol, stats, nontrivial = check(env.log, _values(case), final, quiescent, cond_handling=ch)
    if ch is not None:
        stats['conditions_among_waiters'] = 1
    if case.get('many_joins'):
        stats['thousand_processed_events_consumed_back_to_back'] = 1
    if case.get('ctl_exc'):
        stats['failure_of_a_kernel_signal_class'] = 1
        viol += check_real_runs(env.log)
    res = {'viol': viol, 'digest': digest_of(env.log), 'nontrivial': nontrivial, 'stats': stats,
           'simtime': float(env.now) - float(case.get('t0', 0)), 'steps': steps}
    if case.get('_excerpt'):
        res['excerpt'] = excerpt(env)
    return res


