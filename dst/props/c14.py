"""C14 - WFQ and VirtualClock transmit in virtual-finish-stamp order (DESIGN.md C14)."""
from ..core import digest_of
from .. import sched

from ..net import valid_workloads_noreuse as valid  # noqa: E402,F401

ID = 'C14'
SHRINK_KEEP = ('rate', 'table', 'fmap', 'flows')
TIERS = {'quick': {'runs': 8000, 'budget_s': 30}, 'thorough': {'runs': 400000, 'budget_s': 600}}
RULE = ('WFQ and VC with weight / vtick tables, identity and many-to-one class maps, static backlogs (everything at t=0), '
        'staggered starts, idle periods that reset virtual time, equal stamps; stamps are recomputed from the observed '
        'arrival/departure history by the recurrence of the statement; non-trivial = some service start had >=2 packets '
        'of different classes waiting; distinct = history digest')
REAL = ['onl.scheduler.wfq.WFQ', 'onl.scheduler.virtual_clock.VC', 'onl.sim.resources.store.PriorityStore', 'onl.sim kernel']
STUBS = ['injector, taps, recording sink']
ASSUMPTIONS = ['stamps closer than 1e-9 (relative) count as equal; on exactly equal stamps the earlier arrival must go first '
               'only if it arrived at a strictly earlier instant', 'same-instant leniency at service starts']
PROBES = ['ge4_equal_stamps', 'virtual_time_reset', 'static_backlog', 'kind_WFQ', 'kind_VC', 'many_to_one_map', 'choice_among_classes']


def gen(rng, tier):
    kind = rng.choice(['WFQ', 'WFQ', 'VC'])
    static = kind == 'WFQ' and rng.random() < 0.3
    case = sched.gen_sched_case(rng, tier, kind=kind, static=static, monitor=False)
    if case.get('mode') == 'GRID' and rng.random() < 0.15 and 't0' not in case:
        # a clock that does not start at zero (small negative origins: stamps and instants pass through exactly 0.0)
        case['t0'] = rng.choice([-100, -7.5, -1000, 64, -2, -1, -4, -0.5, -3, -2, -1])
    if rng.random() < 0.3:
        # equal stamps on purpose: equal weights and sizes, simultaneous arrivals
        v = case['table'][0][1]
        case['table'] = [[c, v] for c, _ in case['table']]
        for x in case['workload']:
            x[2] = 500
    return case


def run(case):
    r = sched.run_sched(case)
    H = sched.parse(r)
    kind = case['kind']
    viol, stats = sched.check_stamp_order(H, case, kind, ID)
    if kind == 'WFQ':
        v2, s2 = sched.check_wfq_fairness(H, case, ID)
        viol += v2
        stats.update(s2)
    for e in H.errs:
        viol.append(('%s.2/%s' % (ID, e[1] if isinstance(e, tuple) and len(e) > 1 else 'exc'), 'the run raised %r' % (e,)))
    if not H.quiescent:
        viol.append((ID + '.2/hang', 'the run did not reach quiescence'))
    stats['kind_' + kind] = 1
    if case.get('fmap') is not None:
        stats['many_to_one_map'] = 1
    nt = False
    for a in H.deps:
        w = sched.waiting_at(H, a['start'], a['k'])
        if len(set(x['cls'] for x in w) | {a['cls']}) >= 2 and w:
            nt = True
            stats['choice_among_classes'] = 1
            break
    res = {'viol': viol, 'digest': digest_of(r.w.log), 'nontrivial': nt, 'stats': stats,
           'simtime': float(r.w.env.now), 'steps': r.w.steps}
    if case.get('_excerpt'):
        res['excerpt'] = [repr(x) for x in r.w.log[-80:]]
    return res
