"""C14 - WFQ and VirtualClock transmit in virtual-finish-stamp order (DESIGN.md C14)."""
from ..core import digest_of
from .. import sched

from ..net import valid_workloads_noreuse as valid  # noqa: E402,F401

ID = 'C14'
SHRINK_KEEP = ('rate', 'table', 'fmap', 'flows')
TIERS = {'quick': {'runs': 8000, 'budget_s': 30}, 'thorough': {'runs': 400000, 'budget_s': 600}}
RULE = ('WFQ and VC with weight / vtick tables, identity and many-to-one class maps, static backlogs (everything at t=0), '
        'staggered starts, idle periods that reset virtual time, equal stamps; stamps are recomputed from the observed '
        'arrival/departure history by the recurrence of the statement; non-trivial = some service start had >=2 packets '
        'of different classes waiting; distinct = history digest')
REAL = ['onl.scheduler.wfq.WFQ', 'onl.scheduler.virtual_clock.VC', 'onl.sim.resources.store.PriorityStore', 'onl.sim kernel']
STUBS = ['injector, taps, recording sink']
ASSUMPTIONS = ['stamps closer than 1e-9 (relative) count as equal; on exactly equal stamps the earlier arrival must go first '
               'only if it arrived at a strictly earlier instant', 'same-instant leniency at service starts']
PROBES = ['compared_with_bare_twin', 'library_port_downstream', 'busy_period_ends_and_begins_in_one_instant', 'ge4_equal_stamps', 'virtual_time_reset', 'static_backlog', 'kind_WFQ', 'kind_VC', 'many_to_one_map', 'choice_among_classes']


def gen(rng, tier):
    kind = rng.choice(['WFQ', 'WFQ', 'VC'])
    static = kind == 'WFQ' and rng.random() < 0.3
    case = sched.gen_sched_case(rng, tier, kind=kind, static=static, monitor=False)
    if case.get('mode') == 'GRID' and rng.random() < 0.15 and 't0' not in case:
        # a clock that does not start at zero (small negative origins: stamps and instants pass through exactly 0.0)
        case['t0'] = rng.choice([-100, -7.5, -1000, 64, -2, -1, -4, -0.5, -3, -2, -1])
    if kind == 'WFQ' and case.get('mode') == 'GRID' and not case.get('fmap') and not case.get('fast_link') \
            and not case.get('phase2') and rng.random() < 0.12:
        # a busy period ends and, in the same instant but after the last departure, the next one begins: a class that was
        # served ahead of its fluid finish (a light class with a big packet) must not carry its old stamp over
        cl = [c for c, _ in case['table']]
        if len(cl) >= 2:
            a, b = cl[0], cl[1]
            c3 = cl[2] if len(cl) > 2 else b
            case['table'] = [[c, (rng.choice([0.0625, 0.125]) if c == a else 1)] for c in cl]
            r = case['rate']
            s1, s2 = rng.choice([512, 1024]), rng.choice([512, 1024, 2048])
            t1 = s1 * 8.0 / r
            t2 = t1 + s2 * 8.0 / r
            sx = rng.choice([1024, 4096])
            case['workload'] = [[0.0, a, s1, 0, None, 0], [t1 / 2, b, s2, 0, None, 0], [t2, rng.choice([b, c3]), sx, 0, None, 1],
                                [t2 + 0.125 * sx * 8.0 / r, a, 64, 0, None, 0], [t2 + 0.125 * sx * 8.0 / r, c3, 512, 0, None, 0]]
            case.pop('shadow', None)
            case['period_end'] = True
    if rng.random() < 0.3 and not case.get('period_end') and not case.get('phase2') and not case.get('long_haul'):
        # equal stamps on purpose: equal weights and sizes, simultaneous arrivals
        v = case['table'][0][1]
        case['table'] = [[c, v] for c, _ in case['table']]
        for x in case['workload']:
            x[2] = 500
    return case


def run(case):
    r = sched.run_sched(case)
    H = sched.parse(r)
    kind = case['kind']
    viol, stats = sched.check_stamp_order(H, case, kind, ID)
    if case.get('period_end'):
        stats['busy_period_ends_and_begins_in_one_instant'] = 1
    if kind == 'WFQ':
        v2, s2 = sched.check_wfq_fairness(H, case, ID)
        viol += v2
        stats.update(s2)
    for e in H.errs:
        viol.append(('%s.2/%s' % (ID, e[1] if isinstance(e, tuple) and len(e) > 1 else 'exc'), 'the run raised %r' % (e,)))
    if not H.quiescent:
        viol.append((ID + '.2/hang', 'the run did not reach quiescence'))
    stats['kind_' + kind] = 1
    if case.get('fmap') is not None:
        stats['many_to_one_map'] = 1
    nt = False
    for a in H.deps:
        w = sched.waiting_at(H, a['start'], a['k'])
        if len(set(x['cls'] for x in w) | {a['cls']}) >= 2 and w:
            nt = True
            stats['choice_among_classes'] = 1
            break
    if getattr(H, 'rate2_busy', False):
        viol = []          # the rate changed in mid busy period: no verdict from this run (see sched.parse)
    viol += sched.twin_check(r, case, ID, stats)
    res = {'viol': viol, 'digest': digest_of(r.w.log), 'nontrivial': nt, 'stats': stats,
           'simtime': float(r.w.env.now), 'steps': r.w.steps}
    if case.get('_excerpt'):
        res['excerpt'] = [repr(x) for x in r.w.log[-80:]]
    return res
