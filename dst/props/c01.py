"""C01 - time order, urgent first, then trigger order (DESIGN.md section 4, C01)."""
import heapq

from ..core import digest_of
from ..kprog import Prof, gen_program, setup_world, drive, excerpt, POOLS
from ..tap import URGENT_KINDS

ID = 'C01'
TIERS = {'quick': {'runs': 24000, 'budget_s': 30}, 'thorough': {'runs': 1500000, 'budget_s': 600}}
RULE = ('generated kernel programs (<=7 processes x <=9 ops, spawns, joins, shared events, interrupts, '
        'top-level timeouts, numeric run-until stops) with delays from tiny pools so that coincidences are '
        'the norm; a run is non-trivial when at least one simulated instant has >=2 occurrences processed; '
        'distinct = distinct digest of the whole recorded history')
REAL = ['onl.sim.core.Environment (through TapEnvironment subclass)', 'onl.sim.events.*']
STUBS = ['process bodies are the harness interpreter body(); plain callbacks are harness closures']
ASSUMPTIONS = ['occurrence class (urgent/normal) is derived from the event type, not from the priority passed',
               'TapEnvironment only observes schedule()/step() and prepends one probe callback']
PROBES = ['compared_with_unprobed_twin', 'float_delays_on_huge_integer_clock', 'observed_without_probes', 'long_run_2pow20_events', 'instants_ge3', 'urgent_and_normal_same_instant', 'until_coincides_normal', 'zero_chain_ge3',
          'neg_timeout', 'interrupt_issued', 'until_refused']


def _maybe_long_run(rng, tier, case):
    """Rarely: more than 2**20 unrecorded filler events are scheduled between the triggering of an ordinary occurrence
    and of an interrupt that fall due at the same instant (sequence counters, tie-breakers, packed sort keys)."""
    if rng.random() < (1 / 2500 if tier == 'quick' else 1 / 1200):
        n = 2 ** 20 + rng.randint(50, 500)
        d = rng.choice([1, 2, 3])
        # created first: the interrupter (wakes first at t0+d), then the victim (its timeout is triggered early), then the
        # ticker that burns the event counter at t0
        burst = []
        if rng.random() < 0.5:
            # right after the filler, a burst of interrupts for one victim issued in one action: with the counter a few
            # steps away from 2**20 their sequence numbers straddle it
            n = 2 ** 20 - rng.randint(0, 40)
            burst = [{'op': 'interrupt', 'p': 'lv', 'cause': 'b%d' % j} for j in range(8)]
        pre = [{'k': 'proc', 'id': 'li', 'ops': [{'op': 'timeout', 'd': d, 'v': 0, 'h': 'cont'},
                                                  {'op': 'interrupt', 'p': 'lv', 'cause': 'late'}]},
               {'k': 'proc', 'id': 'lv', 'ops': [{'op': 'timeout', 'd': d, 'v': 1, 'h': 'cont'}] +
                                                 [{'op': 'timeout', 'd': 1, 'v': 2 + j, 'h': 'cont'} for j in range(9)]},
               {'k': 'proc', 'id': 'lt', 'ops': [{'op': 'tick', 'n': n}] + burst}]
        case['setup'] = pre + case['setup']
        case['long_run'] = True


def gen(rng, tier):
    big = tier == 'thorough' and rng.random() < 0.3
    prof = Prof(rng)
    prof.pool = rng.choice(['GRID', 'GRID', 'INTS', 'FLOAT', 'NASTY', 'GRID'])
    prof.max_procs = rng.choice([2, 3, 5, 7, 12]) + (3 if big else 0)
    prof.max_ops = rng.choice([3, 5, 9]) + (4 if big else 0)
    w = prof.w
    w['interrupt'] = rng.choice([0, 1, 3])
    w['spawn'] = rng.choice([0, 1, 2])
    w['join'] = rng.choice([0, 1, 2])
    w['fail'] = rng.choice([0, 0, 1])
    w['negtimeout'] = rng.choice([0, 0, 1])
    w['wait'] = rng.choice([0, 2, 3])
    w['fire'] = rng.choice([0, 0, 3, 12])
    prof.top_timeouts = rng.choice([2, 2, 8])
    w['succeed'] = rng.choice([0, 2, 3])
    w['newenv'] = rng.choice([0, 0, 0, 1])
    w['addcb'] = rng.choice([0, 0, 1, 2])      # plain callbacks and event chaining (dst.trigger as a callback of src)
    prof.handlers = ['cont', 'cont', 'rewait', 'ret', 'other', 'raise', 'none']
    if rng.random() < 0.15:
        # a crowd: many sleepers with distinct due times (a deep agenda) and interrupts that pull sleepers off their
        # own timeouts
        prof.pool = rng.choice(['FLOAT', 'NASTY', 'GRID'])
        prof.max_procs = 14
        prof.max_ops = 9
        prof.max_shared = 0
        for k in w:
            w[k] = 0
        w['timeout'] = 8
        w['interrupt'] = 2
        w['fire'] = 2
        prof.top_timeouts = 8
        prof.handlers = ['cont']
    case = gen_program(rng, prof)
    if rng.random() < 0.25:
        case['twin'] = True
    if rng.random() < 0.25:
        # observed without probe callbacks: nothing is added to any event's callbacks list (code that looks at that list
        # behaves as in production); the order clause then rests on the clock and on the bodies' own observations
        case['noprobe'] = True
    _maybe_long_run(rng, tier, case)
    pool = POOLS[prof.pool]
    if rng.random() < 0.05 and not case.get('long_run'):
        # an integer clock beyond 2**53 (nanoseconds since the epoch) on which the program uses float delays: the sums
        # are rounded, but the clock must still never run backwards
        case['t0'] = rng.choice([2 ** 53 + 1, 1700000000000000123, -(2 ** 53) - 1])
        case['mixed_clock'] = True
        pool = [1, 2, 3]
    plan = []
    t = case['t0']
    for _ in range(rng.choice([0, 0, 1, 2, 3])):
        r = rng.random()
        if r < 0.15:
            plan.append(['until', t - rng.choice([0, 1, 0.5])])  # refused: t <= now (usually)
        elif r < 0.3:
            plan.append(['steps', rng.randint(1, 6)])
        else:
            t = t + rng.choice([x for x in pool if x > 0] or [1])
            plan.append(['until', t])
    plan.append(['run'])
    case['drive'] = plan
    return case


def check(log, quiescent):
    viol = []
    pend = []
    info = {}          # (label, G) -> key
    cur = {}           # label -> list of pending (key)
    last_now = None
    stats = {}
    inst = {}          # now -> list of (cls,label)
    yields = {}
    noprobe = any(r[0] == 'N' for r in log)
    for r in log:
        tag = r[0]
        if tag == 'T':
            _, g, lb, kind, now, delay, prio, st, due = r
            cls = 0 if kind in URGENT_KINDS else 1
            key = (due, cls, g)
            heapq.heappush(pend, (key, lb))
            cur.setdefault(lb, []).append((key, kind))
            if kind == 'intr':
                stats['interrupt_issued'] = 1
        elif tag == 'P':
            if noprobe:
                continue
            _, g, lb, now, st = r[:5]
            lst = cur.get(lb)
            if not lst:
                viol.append(('C01.3', 'occurrence %s processed at t=%r without a pending trigger' % (lb, now)))
                continue
            key, kind = lst.pop(0)
            due, cls, tg = key
            if last_now is not None and now < last_now:
                viol.append(('C01.1', 'clock went backwards: %r after %r (processing %s)' % (now, last_now, lb)))
            last_now = now
            if now != due:
                viol.append(('C01.2', '%s (%s) due at %r took effect at %r' % (lb, kind, due, now)))
            # nothing pending may rank before it
            while pend and not any(k == pend[0][0] for k, _ in cur.get(pend[0][1], [])) \
                    and pend[0][0] != key:
                heapq.heappop(pend)
            if pend and pend[0][0] < key:
                ok_, olb = pend[0]
                viol.append(('C01.3', '%s (due %r, %s, trigger #%d) took effect at t=%r while %s (due %r, %s, '
                             'trigger #%d) was still pending' %
                             (lb, due, 'urgent' if cls == 0 else 'normal', tg, now, olb, ok_[0],
                              'urgent' if ok_[1] == 0 else 'normal', ok_[2])))
            # drop own heap entry lazily
            if pend and pend[0][0] == key:
                heapq.heappop(pend)
            inst.setdefault(now, []).append((cls, kind, lb))
        elif tag == 'N':
            stats['observed_without_probes'] = 1
            if last_now is not None and r[2] < last_now:
                viol.append(('C01.1', 'clock went backwards: %r after %r (kernel step %d)' % (r[2], last_now, r[3])))
            last_now = r[2]
        elif tag == 'Y':
            yields[(r[4], r[5])] = r
        elif tag == 'R':
            y = yields.get((r[4], r[5]))
            if y is not None and r[7] == 'ok' and y[6] == r[6] and '.h' not in r[6] and not y[7]:
                pass
        elif tag == 'O':
            if r[6] == 'negtimeout':
                stats['neg_timeout'] = 1
                if r[7] < 0 and (r[8] != 'ValueError' or r[9] != 0):
                    viol.append(('C01.4', 'timeout(%r) was not refused with ValueError (outcome %s, %d '
                                 'occurrences triggered)' % (r[7], r[8], r[9])))
        elif tag == 'D':
            if r[4] == 'until' and r[6] == 'ValueError':
                stats['until_refused'] = 1
                if r[7] != 0:
                    viol.append(('C01.4', 'refused run(until=%r) still triggered an occurrence' % (r[5],)))
            elif r[4] == 'until' and r[6] == 'illegal-accepted':
                viol.append(('C01.4', 'run(until=%r) at now=%r was not refused' % (r[5], r[8])))
    # a process that has ended is an occurrence like any other: triggered when its body ends, taking effect in its turn
    ended = [r[4] for r in log if r[0] == 'E']
    triggered_procs = set(r[2] for r in log if r[0] == 'T' and r[3] == 'proc')
    for pid_ in ended:
        if pid_ not in triggered_procs:
            viol.append(('C01.3', 'process %s ended but its termination was never triggered as an occurrence of that instant '
                         '(whoever joins it is served out of turn)' % pid_))
            break
    if quiescent and stats.get('observed_without_probes'):
        # without probes "took effect" is not recorded per occurrence - but every kernel step processes exactly one
        # occurrence, so at an empty agenda the steps taken must number the occurrences triggered
        quiescent = False
        n_trig = sum(1 for r in log if r[0] == 'T')
        n_step = len(set(r[3] for r in log if r[0] == 'N'))
        if not any(r[0] == 'O' and r[6] == 'tick' for r in log) and n_trig != n_step:
            viol.append(('C01.5', 'agenda empty after %d kernel steps although %d occurrences had been triggered: %s' %
                         (n_step, n_trig, 'some never took effect' if n_trig > n_step else 'some took effect twice')))
    if quiescent:
        left = [(k, lb) for lb, lst in cur.items() for k, kind in lst]
        if left:
            left.sort()
            viol.append(('C01.5', 'agenda empty but %d triggered occurrence(s) never took effect, e.g. %s due %r'
                         % (len(left), left[0][1], left[0][0][0])))
    multi = [v for v in inst.values() if len(v) >= 2]
    for v in inst.values():
        if len(v) >= 3:
            stats['instants_ge3'] = 1
        cl = set(x[0] for x in v)
        if len(cl) == 2:
            stats['urgent_and_normal_same_instant'] = 1
        kinds = [x[1] for x in v]
        if 'until' in kinds and any(x[0] == 1 for x in v):
            stats['until_coincides_normal'] = 1
    return viol, stats, multi


def timeout_body_check(log, viol, stats):
    """Process-level cross-check: a body that yielded timeout(d) at t0 is resumed at exactly t0 + d."""
    open_y = {}
    chain = {}
    for r in log:
        if r[0] == 'Y':
            if r[4] not in open_y or open_y[r[4]][6] != r[6]:
                open_y[r[4]] = r       # first yield of this event = its creation instant
        elif r[0] == 'R':
            y = open_y.get(r[4])
            if y is None or r[7] != 'ok':
                continue
            # only fresh timeouts created by op 'timeout' (label pid.opi) and not already processed
            if y[6] == '%s.%d' % (r[4], r[5]) and not y[7]:
                d = DELAYS.get(y[6])
                if d is None:
                    continue
                want = y[2] + d
                if want < y[2] and not d < 0:
                    want = y[2]       # rounded below the clock (huge integer clock, float delay): due now, not in the past
                if want != r[2]:
                    viol.append(('C01.2', 'process %s yielded timeout(%r) at t=%r and was resumed at t=%r' %
                                 (r[4], d, y[2], r[2])))
                if d == 0:
                    chain[r[4]] = chain.get(r[4], 0) + 1
                    if chain[r[4]] >= 3:
                        stats['zero_chain_ge3'] = 1
                else:
                    chain[r[4]] = 0


DELAYS = {}


def _collect_delays(ops, pid, out):
    for i, op in enumerate(ops):
        if op.get('op') == 'timeout':
            out['%s.%d' % (pid, i)] = op['d']
        elif op.get('op') == 'spawn':
            _collect_delays(op.get('ops', []), op['id'], out)


def run(case):
    global DELAYS
    w = setup_world(case)
    env = w.env
    steps = drive(w, case.get('drive', [['run']]), max_steps=4000 + (1200000 if case.get('long_run') else 0))
    quiescent = env.peek() == float('inf')
    viol, stats, multi = check(env.log, quiescent)
    DELAYS = {}
    for it in case.get('setup', []):
        if it.get('k') == 'proc':
            _collect_delays(it.get('ops', []), it['id'], DELAYS)
    # body-level resumption instants; a resumption after the first yield of a timeout created at the
    # yield instant (creation and yield are one action in body())
    timeout_body_check(env.log, viol, stats)
    if case.get('twin') and not case.get('noprobe') and not case.get('long_run'):
        # the same program with no probe call-backs anywhere: the bodies must tell the same story
        from ..kprog import unprobed_twin, body_view, first_difference
        stats['compared_with_unprobed_twin'] = 1
        d = first_difference(body_view(env.log), unprobed_twin(case, 4000))
        if d is not None:
            viol.append(('C01.6', 'the program runs differently when no call-back watches its events: observation #%d of '
                         'the process bodies is %r with probes and %r without' % d))
    if case.get('long_run'):
        stats['long_run_2pow20_events'] = 1
    if case.get('mixed_clock'):
        stats['float_delays_on_huge_integer_clock'] = 1
    res = {'viol': viol, 'digest': digest_of(env.log), 'nontrivial': bool(multi), 'stats': stats,
           'simtime': float(env.now) - float(case.get('t0', 0)), 'steps': steps,
           'interleaving': digest_of([tuple((c, k) for c, k, _ in v) for v in multi]) if multi else None}
    if case.get('_excerpt'):
        res['excerpt'] = excerpt(env)
    return res
