"""C11 - TokenBucket / TwoRateTokenBucket: conformance to (rate, bucket), nothing delayed needlessly, colours (DESIGN.md C11)."""
from ..core import digest_of
from ..net import NetWorld, InTap, OutTap, Recorder, start_injector, close, gen_times
from onl.netdev import TokenBucket, TwoRateTokenBucket

from ..net import valid_workloads_noreuse as valid  # noqa: E402,F401

ID = 'C11'
SHRINK_KEEP = ('rate', 'bucket', 'peak', 'cir', 'cbs', 'pir', 'pbs')   # configurations stay legal while minimising
TIERS = {'quick': {'runs': 12000, 'budget_s': 30}, 'thorough': {'runs': 600000, 'budget_s': 600}}
RULE = ('one real TokenBucket or TwoRateTokenBucket between a harness injector and a recording sink; workloads of <=60 '
        'packets with bursts, long idle gaps and packets larger than the bucket; GRID (power-of-two rates, exact arithmetic) '
        'or FLOAT rates; with/without peak rate resp. PIR/PBS; non-trivial = some packet had to wait for tokens; '
        'distinct = history digest')
REAL = ['onl.netdev.token_bucket.TokenBucket', 'onl.netdev.two_level_token_bucket.TwoRateTokenBucket', 'onl.sim kernel']
STUBS = ['injector, taps, recording sink']
ASSUMPTIONS = ['reference recurrence written from the statement; the committed bucket after a yellow packet is not '
               'specified, so a colour is only demanded where both readings (left / emptied) agree',
               'FLOAT workloads: relative tolerance 1e-9 on instants, 1e-6 on the conformance inequality']
PROBES = ['compared_with_bare_twin', 'epoch_clock_fast_link', 'clock_origin_nonzero', 'precoloured_packets', 'rate_assigned_after_construction', 'packet_larger_than_bucket', 'bucket_exactly_empty_then_back_to_back', 'idle_longer_than_fill_time',
          'waited_for_tokens', 'peak_spacing', 'green', 'yellow', 'red', 'trtb_no_pir']


def gen_epoch(rng, tier):
    """A backlog behind a Gbit/s shaper on an epoch-seconds clock: every token wait is far below a second, most are
    close to (or below) the resolution of the clock."""
    n = rng.choice([300, 600, 1000])
    rate = rng.choice([1e8, 1e9, 1e10])
    size = rng.choice([64, 100, 1000])
    case = {'engine': 'N', 'mode': 'FLOAT', 'epoch_fast': True, 't0': rng.choice([1.7e9, 1.0e7]), 'rate': rate,
            'bucket': rng.choice([1500, 3000]), 'peak': None, 'workload': [[0.0, 0, size] for _ in range(n)]}
    if rng.random() < 0.4:
        case['elem'] = 'TRTB'
        case['cir'], case['cbs'] = rate, case['bucket']
        case['pir'], case['pbs'] = (rate * 2, case['bucket']) if rng.random() < 0.5 else (None, None)
    else:
        case['elem'] = 'TB'
    return case


def gen(rng, tier):
    if rng.random() < 0.03:
        return gen_epoch(rng, tier)
    mode = rng.choice(['GRID', 'GRID', 'FLOAT'])
    n = rng.randint(1, 30 if tier == 'quick' else 60)
    ts = gen_times(rng, n, mode)
    sizes_pool = rng.choice([[64, 128, 256, 512], [100, 1500], [512], [1, 1000, 2000]])
    if mode == 'GRID':
        rate = rng.choice([1024, 4096, 8192, 65536])
        peak = rng.choice([None, None, rate * 2, rate * 8, rate, rate // 2])
    else:
        rate = rng.choice([1000.0, 9600.0, 33333.0, 1.5e5])
        peak = rng.choice([None, None, rate * 1.5, rate * 10, rate, rate * 0.4])
    bucket = rng.choice([64, 256, 512, 1024, 1500, 4096])
    case = {'engine': 'N', 'mode': mode, 'rate': rate, 'bucket': bucket, 'peak': peak,
            'workload': [[ts[k], rng.randint(0, 2), rng.choice(sizes_pool)] for k in range(n)]}
    if rng.random() < 0.45:
        case['elem'] = 'TRTB'
        case['cir'], case['cbs'] = rate, bucket
        if rng.random() < 0.7:
            case['pir'] = rate * rng.choice([2, 4]) if mode == 'GRID' else rate * rng.choice([1.5, 3.0])
            case['pbs'] = rng.choice([bucket, bucket * 2, 1500, 3000])
        else:
            case['pir'] = case['pbs'] = None
    else:
        case['elem'] = 'TB'
        if rng.random() < 0.12:
            # the rate is assigned to the public attribute after construction (once the shaper's process has started)
            case['late_rate'] = rng.choice([8, 12345, rate * 4])
    if mode == 'GRID' and rng.random() < 0.2:
        # a clock that does not start at zero (negative origins included): the bucket is full when the shaper is created
        case['t0'] = rng.choice([-10, -1000.5, 5, 64, -0.125])
    if case['elem'] == 'TRTB' and case.get('pir') and rng.random() < 0.06:
        case['pbs'] = 0              # a peak bucket of size zero: every packet waits for its peak tokens
    if rng.random() < 0.15:
        # packets already coloured by an upstream meter: this meter's verdict replaces the colour
        case['precoloured'] = True
    return case


def run(case):
    res, w = _run(case, False)
    if case.get('twin') and not case.get('epoch_fast'):
        # the same shaper between library elements only: a real Port (optionally) and a library sink behind it, no taps
        from ..net import sink_view, compare_sink_views
        res['stats']['compared_with_bare_twin'] = 1
        w2 = _run(case, True)
        if w2.raised:
            res['viol'].append(('C11.T', 'the same scenario without taps raised %r' % (w2.raised[0],)))
        else:
            d = compare_sink_views(sink_view(w), sink_view(w2))
            if d is not None:
                res['viol'].append(('C11.T', 'the shaper works differently when nobody watches it (no taps, library elements '
                                    'behind it): ' + d))
    return res


def _run(case, bare):
    t0 = case.get('t0', 0)
    w = NetWorld(t0, bare=bare)
    env = w.env
    if case.get('elem') == 'TRTB':
        tb = TwoRateTokenBucket(env, case['cir'], case['cbs'], case.get('pir'), case.get('pbs'))
    else:
        late = case.get('late_rate')
        tb = TokenBucket(env, late if late else case['rate'], case['bucket'], peak=case.get('peak'))
        if late:
            def configure():
                tb.rate = case['rate']
                return
                yield
            env.process(configure())
    sink = Recorder(w, 'sink')
    dn = case.get('downstream')
    if dn:
        # a real Port behind the shaper (in the instrumented world and in the bare twin alike)
        from onl.netdev import Port
        dport = Port(env, dn.get('rate', 0), None, False, 'dn')
        dport.out = sink
        sink = dport

    def post_out(elem, p):
        return (p.color,)
    tb.out = OutTap(w, 'tb', tb, sink, post=post_out)
    tap = InTap(w, 'tb', tb)
    if case.get('precoloured'):
        class PreColour:
            def put(self, p, tap=tap):
                p.color = ('red', 'yellow', 'green')[p.packet_id % 3]
                return tap.put(p)
        tap = PreColour()
    start_injector(w, tap, [tuple([t0 + x[0]] + list(x[1:])) for x in case.get('workload', [])])
    w.run(max_steps=20000 * (40 if case.get('long_life') else 1))
    if bare:
        return w
    viol, stats, nontrivial = check(w, case)
    if case.get('t0'):
        stats['clock_origin_nonzero'] = 1
    if case.get('precoloured'):
        stats['precoloured_packets'] = 1
    if case.get('late_rate') and case.get('elem') != 'TRTB':
        stats['rate_assigned_after_construction'] = 1
    res = {'viol': viol, 'digest': digest_of(w.log), 'nontrivial': nontrivial, 'stats': stats,
           'simtime': float(env.now), 'steps': w.steps}
    if case.get('_excerpt'):
        res['excerpt'] = [repr(r) for r in w.log[-80:]]
    return res, w


def check_epoch(w, case, arr, outs, viol, stats, rate, B):
    """All packets wait from t0 on: in exact arithmetic packet k leaves at t0 + max(0, bytes up to k - B) * 8 / rate. The
    float clock can only approximate that; the error must stay within a few units of its resolution instead of
    growing with the number of packets."""
    from fractions import Fraction
    import math
    stats['epoch_clock_fast_link'] = 1
    t0 = Fraction(case['t0'])
    res = math.ulp(case['t0'])
    cum = 0
    worst = 0
    for a, pkt, size, fields in arr:
        if pkt not in outs:
            viol.append(('C11.1', 'packet %s never left the shaper' % pkt))
            return viol, stats, True
        cum += size
        want = t0 + Fraction(max(0, cum - B) * 8) / Fraction(rate)
        got = Fraction(outs[pkt][0])
        err = float(got - want)
        if abs(err) > abs(worst):
            worst = err
        if abs(err) > 8 * res:
            viol.append(('C11.2' if err < 0 else 'C11.1', 'packet %s (#%d of a backlog waiting since t0=%r behind a %r bit/s shaper '
                         'with a %d-byte bucket) left at %r; the earliest conforming instant is %r: off by %.3g s = %.0f clock '
                         'resolutions, and growing with the backlog' %
                         (pkt, len([1 for x in arr if x[0] <= a]) and arr.index((a, pkt, size, fields)) + 1, case['t0'], rate, B,
                          outs[pkt][0], float(want), err, err / res)))
            break
    return viol, stats, True


def check(w, case):
    viol, stats = [], {}
    mode = case.get('mode', 'GRID')
    trtb = case.get('elem') == 'TRTB'
    arr, outs, order = [], {}, []
    for r in w.log:
        if r[0] == 'IN':
            arr.append((r[2], r[4], r[5][3], r[5]))
        elif r[0] == 'OUT':
            if r[4] in outs:
                viol.append(('C11.1', 'packet %s left the shaper twice' % r[4]))
            outs[r[4]] = (r[2], r[5], r[6][0])
            order.append(r[4])
        elif r[0] == 'ERR':
            viol.append(('C11.4/%s' % (r[4][1] if isinstance(r[4], tuple) and len(r[4]) > 1 else 'exc'), 'the run raised %r' % (r[4],)))
    if not w.quiescent:
        viol.append(('C11.4', 'the run did not reach quiescence'))
    if order != [a[1] for a in arr if a[1] in outs]:
        viol.append(('C11.1', 'departure order %r is not arrival order' % (order,)))
    if trtb and case.get('pir'):
        rate, B, peak = case['pir'], case['pbs'], None
    elif trtb:
        rate, B, peak = case['cir'], case['cbs'], None
    else:
        rate, B, peak = case['rate'], case['bucket'], case.get('peak')
    if case.get('epoch_fast'):
        return check_epoch(w, case, arr, outs, viol, stats, rate, B)
    L = B
    last = case.get('t0', 0)          # "initially full" at the instant the shaper is created, whatever the clock shows
    Lc_a = Lc_b = case.get('cbs')     # committed bucket under two readings of "yellow"
    lastc = case.get('t0', 0)
    prev_fwd = None
    nontrivial = False
    debits = []
    for a, pkt, size, fields in arr:
        if pkt not in outs:
            viol.append(('C11.1', 'packet %s (arrived %r) never left the shaper' % (pkt, a)))
            continue
        h = a if prev_fwd is None else max(a, prev_fwd)
        if h - last > B * 8 / rate and h > a - 1e300:
            stats['idle_longer_than_fill_time'] = 1
        L = min(B, L + rate * (h - last) / 8.0)
        if size > B:
            stats['packet_larger_than_bucket'] = 1
        waited = False
        if size > L:
            tau = h + (size - L) * 8.0 / rate
            L = 0.0
            waited = True
            nontrivial = True
            stats['waited_for_tokens'] = 1
        else:
            tau = h
            L -= size
            if L == 0:
                stats['bucket_exactly_empty_then_back_to_back'] = 1
        last = tau
        fwd = tau + size * 8.0 / peak if peak else tau
        if peak:
            stats['peak_spacing'] = 1
        t, f2, color = outs[pkt]
        if f2 != fields:
            viol.append(('C11.1', 'packet %s changed inside the shaper' % pkt))
        if not close(t, fwd, mode):
            viol.append(('C11.1', 'packet %s (size %d, arrived %r, reached the head at %r) left at %r; token-bucket law '
                         '(rate %r, bucket %r, peak %r) gives %r' % (pkt, size, a, h, t, rate, B, peak, fwd)))
            # continue from what was observed, so one deviation is reported once
            fwd = t
            tau = t - size * 8.0 / peak if peak else t
            last = tau
        debits.append((tau, size, pkt, color))
        if trtb:
            # colours
            if case.get('pir'):
                ca = min(case['cbs'], Lc_a + case['cir'] * (h - lastc) / 8.0)
                cb = min(case['cbs'], Lc_b + case['cir'] * (h - lastc) / 8.0)
                lastc = h            # the committed bucket keeps filling while a packet waits for peak tokens
                if waited:
                    want = 'red'
                    Lc_a, Lc_b = ca, cb
                else:
                    wa = 'green' if size <= ca else 'yellow'
                    wb = 'green' if size <= cb else 'yellow'
                    near = abs(size - ca) <= 1e-9 * max(1.0, size) or abs(size - cb) <= 1e-9 * max(1.0, size)
                    want = wa if (wa == wb and not near) else None
                    if color == 'green':
                        Lc_a, Lc_b = ca - size, cb - size
                    else:
                        Lc_a, Lc_b = ca, 0.0
                    if want is None and color not in ('green', 'yellow'):
                        viol.append(('C11.3', 'packet %s did not wait for peak tokens but is coloured %r' % (pkt, color)))
            else:
                stats['trtb_no_pir'] = 1
                want = 'yellow' if waited else 'green'
            if want is not None and color != want and mode != 'FLOAT' or \
                    (want is not None and color != want and mode == 'FLOAT' and not _near_boundary(size, L, rate)):
                viol.append(('C11.3', 'packet %s (size %d) is coloured %r; %s' %
                             (pkt, size, color, 'it had to wait for peak tokens -> red' if want == 'red' else
                              'expected %s' % want)))
            if color in ('green', 'yellow', 'red'):
                stats[color] = 1
        prev_fwd = fwd
    # pairwise conformance on debit instants (and peak spacing)
    tol = 1e-6 if mode == 'FLOAT' else 0.0
    span = len(debits) if len(debits) <= 400 else 80     # long lives: windows of 80 departures (the recurrence above
    for i in range(len(debits)):                          # has already been checked packet by packet)
        tot = 0
        for j in range(i, min(len(debits), i + span)):
            tot += debits[j][1]
            bound = max(B, debits[i][1]) + rate * (debits[j][0] - debits[i][0]) / 8.0
            if tot > bound * (1 + tol) + tol:
                viol.append(('C11.2', 'packets %s..%s: %d bytes released within %r s, (rate %r, bucket %r) allows %r' %
                             (debits[i][2], debits[j][2], tot, debits[j][0] - debits[i][0], rate, B, bound)))
                break
        else:
            continue
        break
    if trtb:
        gs = [d for d in debits if d[3] == 'green']
        cir, cbs = case['cir'], case['cbs']
        for i in range(len(gs)):
            tot = 0
            bad = False
            for j in range(i, min(len(gs), i + span)):
                tot += gs[j][1]
                bound = cbs + cir * (gs[j][0] - gs[i][0]) / 8.0
                if tot > bound * (1 + tol) + tol:
                    viol.append(('C11.3', 'green packets %s..%s: %d bytes within %r s exceed (CIR %r, CBS %r): %r' %
                                 (gs[i][2], gs[j][2], tot, gs[j][0] - gs[i][0], cir, cbs, bound)))
                    bad = True
                    break
            if bad:
                break
    if peak:
        ds = [outs[a[1]] for a in arr if a[1] in outs]
        szs = [a[2] for a in arr if a[1] in outs]
        for k in range(1, len(ds)):
            gap = ds[k][0] - ds[k - 1][0]
            need = szs[k] * 8.0 / peak
            if gap < need * (1 - 1e-9) - (1e-12 if mode == 'FLOAT' else 0):
                viol.append(('C11.2', 'departures %r and %r are %r apart; peak rate %r requires %r for %d bytes' %
                             (ds[k - 1][0], ds[k][0], gap, peak, need, szs[k])))
                break
    return viol, stats, nontrivial


def _near_boundary(size, L, rate):
    return False


_gen_short = gen


def gen(rng, tier):
    case = _gen_short(rng, tier)
    if rng.random() < 0.2 and not case.get('epoch_fast'):
        case['twin'] = True
        if rng.random() < 0.6:
            base = case.get('peak') or case.get('pir') or case.get('rate') or case.get('cir') or 8192
            case['downstream'] = {'rate': rng.choice([base, base, base / 2, base * 2, 0])}
    if rng.random() < 1 / 80 and not case.get('epoch_fast') and len(case.get('workload', [])) >= 3:
        # a long life: the same pattern of bursts, gaps and coincidences over and over, thousands of packets in all
        from ..net import stretch_workload
        case['workload'] = stretch_workload(case['workload'], 1700)
        case['long_life'] = True
    return case
