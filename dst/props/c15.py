"""C15 - DRR / RR / WRR give each backlogged class its per-visit allowance (DESIGN.md C15)."""
from ..core import digest_of
from .. import sched

from ..net import valid_workloads_noreuse as valid  # noqa: E402,F401

ID = 'C15'
SHRINK_KEEP = ('rate', 'table', 'fmap', 'flows')
TIERS = {'quick': {'runs': 8000, 'budget_s': 30}, 'thorough': {'runs': 400000, 'budget_s': 600}}
RULE = ('DRR, RR and WRR with weight tables / flow lists, packets smaller and larger than the quantum, classes emptying '
        'and refilling mid-round; RR/WRR judged by the cyclic-visit and per-visit-allowance rules in every time mode, DRR '
        'by credit bounds, the fairness bound and - on coincidence-free (DISTINCT) workloads - an exact deficit-round-robin '
        'reference; non-trivial = at least two classes were backlogged together; distinct = history digest')
REAL = ['onl.scheduler.drr.DRR', 'onl.scheduler.rr.RR', 'onl.scheduler.wrr.WRR', 'onl.scheduler.base', 'onl.sim kernel']
STUBS = ['injector, taps, recording sink']
ASSUMPTIONS = ['after an idle period the visiting position is not specified: a round restarts at the first class in '
               'declaration order that has a packet (what any loop over the declaration does)',
               'DRR credit is read from the public `deficit` dict at every tap']
PROBES = ['compared_with_bare_twin', 'library_port_downstream', 'class_change_under_backlog', 'multi_packet_visit', 'both_backlogged_period', 'drr_exact_reference_matched',
          'deficit_observed', 'kind_DRR', 'kind_RR', 'kind_WRR', 'many_to_one_map', 'packet_larger_than_quantum']


def gen(rng, tier):
    kind = rng.choice(['DRR', 'DRR', 'RR', 'WRR'])
    mode = rng.choice(['DISTINCT', 'DISTINCT', 'GRID', 'FLOAT']) if kind == 'DRR' else None
    return sched.gen_sched_case(rng, tier, kind=kind, mode=mode, monitor=False)


def run(case):
    r = sched.run_sched(case)
    H = sched.parse(r)
    kind = case['kind']
    if kind == 'DRR':
        H.quantum = dict(getattr(r.s, 'quantum', {}))
        viol, stats = sched.check_drr(H, case, ID)
        if any(a['size'] > 1500 for a in H.arr):
            stats['packet_larger_than_quantum'] = 1
    else:
        viol, stats = sched.check_rr(H, case, kind, ID)
    for e in H.errs:
        viol.append(('%s.6/%s' % (ID, e[1] if isinstance(e, tuple) and len(e) > 1 else 'exc'), 'the run raised %r' % (e,)))
    if not H.quiescent:
        viol.append((ID + '.6/hang', 'the run did not reach quiescence'))
    stats['kind_' + kind] = 1
    if case.get('fmap') is not None:
        stats['many_to_one_map'] = 1
    nt = False
    for a in H.deps:
        w = sched.waiting_at(H, a['start'], a['k'])
        if any(x['cls'] != a['cls'] for x in w):
            nt = True
            break
    if getattr(H, 'rate2_busy', False):
        viol = []          # the rate changed in mid busy period: no verdict from this run (see sched.parse)
    viol += sched.twin_check(r, case, ID, stats)
    res = {'viol': viol, 'digest': digest_of(r.w.log), 'nontrivial': nt, 'stats': stats,
           'simtime': float(r.w.env.now), 'steps': r.w.steps}
    if case.get('_excerpt'):
        res['excerpt'] = [repr(x) for x in r.w.log[-80:]]
    return res
