"""C03 - runs are reproducible and unaffected by where they are stopped and resumed (DESIGN.md C03)."""
from ..core import digest_of, san
from ..kprog import Prof, gen_program, setup_world, drive, excerpt, POOLS

ID = 'C03'
NONDETERMINISM_IS_VIOLATION = True
TIERS = {'quick': {'runs': 16000, 'budget_s': 30, 'det_sample': 600, 'det_children': 3},
         'thorough': {'runs': 800000, 'budget_s': 600, 'det_sample': 6000, 'det_children': 6}}
RULE = ('generated kernel programs with all features (conditions, interrupts, shared events, joins, failures) and '
        'network scenarios, each executed uninterrupted (reference = the real kernel) and under a generated split plan '
        'of run(until=number) at due and in-between instants, run(until=event), step() x k and illegal stops; '
        'non-trivial = the plan stopped the run at least twice before the end; distinct = history digest of the split '
        'execution; reproducibility is checked in-process and in fresh interpreters under other PYTHONHASHSEEDs')
REAL = ['onl.sim.core.Environment.run/step/schedule', 'onl.sim.events.*', 'network elements of the scenarios']
STUBS = ['process bodies, plain callbacks, the driver that issues the split plan']
ASSUMPTIONS = ['a run(until=event) stop is placed on events that succeed, fail or never trigger in the reference run',
               'programs in which an exception escapes step() are split with step() only',
               'canonical trace = all recorded observations and processings, minus the stop sentinels, minus action '
               'and step numbers']
PROBES = ['until_condition_stop', 'until_event_failed', 'big_int_clock', 'network_scenario', 'pipeline_scenario', 'stop_at_instant_with_due_normal_event', 'until_event_gains_waiter_after_run_began',
          'until_event_already_processed', 'nasty_stop_time', 'illegal_stop_refused', 'step_split', 'until_event_stop']


NAMES = ['gold', 'silver', 'bronze', 'lead', 'tin', 'zinc']


def gen_net(rng, tier):
    """A network scenario: one scheduler under a bursty workload, optionally with string class ids (hash order!),
    or a whole generated pipeline (the compositions of C08)."""
    from .. import sched
    if rng.random() < 0.35:
        from . import c08
        pipe = c08.gen(rng, tier, plain=True)
        ts = sorted(set([x[0] for s_ in pipe['sources'] if s_.get('kind') == 'inj' for x in s_['workload']] + [1.0, 2.0]))
        plan = []
        for _ in range(rng.choice([1, 2, 3, 5])):
            if rng.random() < 0.6:
                plan.append(['until', rng.choice([t for t in ts if t > 0] or [1.0]) + rng.choice([0, 0, 0.0625, 0.5])])
            else:
                plan.append(['steps', rng.randint(1, 9)])
        nums = sorted(p[1] for p in plan if p[0] == 'until')
        plan = [['until', nums.pop(0)] if p[0] == 'until' else p for p in plan]
        plan.append(['run'])
        return {'engine': 'N', 'pipe': pipe, 'drive': plan}
    kind = rng.choice(['DRR', 'DRR', 'WFQ', 'WFQ', 'WRR', None, None])
    net = sched.gen_sched_case(rng, tier, kind=kind, monitor=False, many_to_one=False,
                               static=rng.random() < 0.3)
    if net.get('long_haul'):
        # split executions compare whole traces: the long hauls are for the scheduler checks, here a short stretch will do
        net['workload'] = net['workload'][:60]
        net.pop('long_haul')
    if net['kind'] == 'WFQ' and rng.random() < 0.6:
        # decimal weights: their sum depends on the order of the additions (a set of string ids iterates in hash order)
        net['table'] = [[c, rng.choice([0.1, 0.2, 0.3, 0.7, 0.15, 0.05])] for c, _v in net['table']]
    if rng.random() < 0.7 and all(isinstance(f, int) for f in net['flows']):
        m = dict((f, NAMES[f % len(NAMES)] + (str(f) if f >= len(NAMES) else '')) for f in net['flows'])
        net['flows'] = [m[f] for f in net['flows']]
        net['table'] = [[m[c], v] for c, v in net['table']]
        net['workload'] = [[x[0], m[x[1]]] + list(x[2:]) for x in net['workload']]
    ts = sorted(set(x[0] for x in net['workload']))
    plan = []
    cand = [t for t in ts if t > 0]
    for _ in range(rng.choice([1, 2, 3, 5])):
        r = rng.random()
        if r < 0.6 and cand:
            plan.append(['until', rng.choice(cand) + rng.choice([0, 0, 0.0625, 0.5])])
        else:
            plan.append(['steps', rng.randint(1, 9)])
    nums = sorted(p[1] for p in plan if p[0] == 'until')
    plan = [['until', nums.pop(0)] if p[0] == 'until' else p for p in plan]
    plan.append(['run'])
    return {'engine': 'N', 'net': net, 'drive': plan}


def _run_until(env, t):
    """run(until=t); a finite scripted source that ends (ScriptDone) does not end the run."""
    from ..net import ScriptDone
    from ..tap import EmptySchedule, StopSimulation
    while True:
        try:
            env.run(until=t)
            return
        except ScriptDone:
            # the call was abandoned by the harness's own end-of-script signal: call again for the same instant
            if not env.now < t:
                return


def run_net(case):
    from .. import sched
    from ..net import NetWorld, InTap, OutTap, Recorder, start_injector, ScriptDone
    net = case.get('net')
    pipe = case.get('pipe')

    def execute(plan):
        w = NetWorld()
        restore = None
        if pipe is not None:
            from . import c08
            _b, _g, restore = c08.build_pipeline(w, pipe)
        else:
            s, f2c = sched.build(w, net)

            def public_state(elem, p):
                # the scheduler's public virtual-time state is part of what a program can observe
                return (getattr(elem, 'vtime', None),
                        tuple(sorted((repr(k), v) for k, v in getattr(elem, 'finish_times', {}).items())))
            s.out = OutTap(w, 's', s, Recorder(w, 'sink'), post=public_state)
            start_injector(w, InTap(w, 's', s), [tuple(x) for x in net.get('workload', [])])
        try:
            return _drive_net(w, plan)
        finally:
            if restore is not None:
                restore()

    def _drive_net(w, plan):
        env = w.env
        stops = 0
        steps = 0
        viol = []
        for it in plan:
            if it[0] == 'run':
                steps += w.run(max_steps=40000)
            elif it[0] == 'steps':
                stops += 1
                for _ in range(it[1]):
                    try:
                        env.step()
                        steps += 1
                    except ScriptDone:
                        steps += 1
                    except Exception:
                        break
            elif it[0] == 'until':
                t = it[1]
                if t <= env.now:
                    try:
                        env.run(until=t)
                        viol.append(('C03.2', 'run(until=%r) at now=%r was not refused' % (t, env.now)))
                    except ValueError:
                        pass
                    continue
                stops += 1
                try:
                    _run_until(env, t)
                    if env.now != t:
                        viol.append(('C03.2', 'run(until=%r) returned with now == %r' % (t, env.now)))
                except Exception as e:
                    w.rec('ERR', env.step_no, san(e))
        return w, stops, steps, viol
    ref, _, _, _ = execute([['run']])
    w, stops, steps, viol = execute(list(case.get('drive', [])) + [['run']])

    def cn(log):
        out = []
        for r in log:
            if r[0] == 'X':
                out.append(('X', r[3]))          # without the kernel step number (stops add steps)
            elif r[0] == 'ERR':
                out.append(('ERR', r[2], r[4]))
            else:
                out.append((r[0],) + tuple(r[2:]))
        return out
    d = first_diff(cn(ref.log), cn(w.log))
    if d is not None:
        viol.append(('C03.4', 'network scenario (%s): split execution diverges from the uninterrupted run at record %d: '
                     'uninterrupted %r, split %r' % (((net or {}).get('kind', 'pipeline'),) + d)))
    return {'viol': viol, 'digest': digest_of(w.log), 'nontrivial': stops >= 2,
            'stats': {'network_scenario': 1, 'pipeline_scenario': 1 if pipe is not None else 0},
            'simtime': float(w.env.now), 'steps': steps}


def gen(rng, tier):
    if rng.random() < 0.25:
        return gen_net(rng, tier)
    big = tier == 'thorough' and rng.random() < 0.3
    prof = Prof(rng)
    prof.pool = rng.choice(['GRID', 'GRID', 'INTS', 'FLOAT', 'NASTY'])
    prof.max_procs = rng.choice([2, 4, 6]) + (3 if big else 0)
    prof.max_ops = rng.choice([3, 5, 8]) + (4 if big else 0)
    prof.max_shared = rng.choice([1, 2, 3])
    w = prof.w
    w['wait'] = rng.choice([2, 4])
    w['succeed'] = rng.choice([2, 3])
    w['fail'] = rng.choice([0, 0, 1])
    w['interrupt'] = rng.choice([0, 1, 2])
    w['cond'] = rng.choice([0, 1, 2])
    w['spawn'] = rng.choice([0, 1, 2])
    w['join'] = rng.choice([0, 1, 2])
    w['fire'] = rng.choice([0, 1])
    w['addcb'] = rng.choice([0, 1])
    prof.handlers = rng.choice([['cont', 'rewait', 'ret', 'other'], ['cont', 'cont', 'rewait', 'other', 'raise', 'none']])
    big_int_clock = rng.random() < 0.08
    if big_int_clock:
        prof.pool = 'INTS'           # an integer clock far above 2**53 (e.g. nanoseconds since the epoch)
        prof.handlers = ['cont', 'rewait', 'ret']   # ('other' waits 0.5: a float added to such a clock rounds it)
    case = gen_program(rng, prof)
    if big_int_clock:
        case['t0'] = rng.choice([1700000000000000000, 2 ** 60 + 1, 2 ** 53 + 1]) + rng.randint(0, 999)
    # reference run at generation time only to learn which instants / events exist; the plan is explicit data
    ref = setup_world(case)
    drive(ref, [['run']], max_steps=3000)
    dues = sorted(set((r[8] if big_int_clock else float(r[8])) for r in ref.env.log if r[0] == 'T'))
    # until-events are chosen from the program text, not from what the code under test did with it
    ok_events = sorted(set(list(ref.shared) + list(ref.procs) + list(ref.named)))
    never = [lb for lb in list(ref.shared) if lb not in set(r[2] for r in ref.env.log if r[0] == 'P')]
    plan = []
    t0 = case['t0']
    cand = [d for d in dues if d > t0]
    mids = [] if big_int_clock else [(a + b) / 2 for a, b in zip([t0] + cand, cand) if a < b]
    nstops = rng.choice([1, 2, 3, 5, 8])
    stops = []
    for _ in range(nstops):
        r = rng.random()
        if r < 0.4 and cand:
            stops.append(('until', rng.choice(cand)))
        elif r < 0.55 and mids:
            stops.append(('until', rng.choice(mids)))
        elif r < 0.75 and ok_events and rng.random() < 0.25:
            stops.append(('until_cond', rng.choice(['any', 'all']),
                          [rng.choice(ok_events) for _ in range(rng.randint(1, 3))], 'drv.c%d' % len(stops)))
        elif r < 0.75 and ok_events:
            stops.append(('until_ev', rng.choice(ok_events)))
        elif r < 0.9:
            stops.append(('steps', rng.randint(1, 7)))
        else:
            stops.append(('until', t0 - rng.choice([0, 1])))
    nums = sorted(s[1] for s in stops if s[0] == 'until')
    for s in stops:
        if s[0] == 'until':
            plan.append(['until', nums.pop(0)])
        else:
            plan.append(list(s))
    if never and rng.random() < 0.1:
        plan.append(['until_ev', rng.choice(never)])
    plan.append(['run'])
    if rng.random() < 1 / 100:
        # a long life before the stops: some 65536 unrecorded filler events first (sequence numbers, packed sort keys)
        case['setup'] = [{'k': 'proc', 'id': 'lt', 'ops': [{'op': 'tick', 'n': 65536 + rng.randint(-30, 400)}]}] + case['setup']
        case['long_run'] = True
    case['drive'] = plan
    return case


def canon(log):
    out = []
    drv_steps = set(r[4] for r in log if r[0] == 'P' and isinstance(r[2], str) and r[2].startswith('drv.'))
    for r in log:
        tag = r[0]
        if tag in ('T', 'P') and isinstance(r[2], str) and r[2].startswith('drv.'):
            continue                 # a condition the driver built to stop on: not part of the program
        if tag == 'X' and r[2] in drv_steps:
            continue                 # ... and its own failure (an operand failed) is reported to the driver only
        if tag == 'T':
            if r[3] == 'until':
                continue
            out.append(('T', r[2], r[3], r[4], r[5], r[6], r[8]))
        elif tag == 'P':
            if r[2].startswith('until@'):
                continue
            out.append(('P', r[2], r[3], r[5], r[6]))
        elif tag == 'X':
            out.append(('X', r[3]))
        elif tag == 'D':
            continue
        else:
            out.append((tag, r[2]) + tuple(r[4:]))
    return out


def first_diff(a, b):
    n = min(len(a), len(b))
    for i in range(n):
        if a[i] != b[i]:
            return i, a[i], b[i]
    if len(a) != len(b):
        return n, a[n] if len(a) > n else None, b[n] if len(b) > n else None
    return None


def check_split(w, case, ref_log):
    env = w.env
    log = env.log
    viol = []
    stats = {}
    stops = 0
    # walk the log: D records delimit run() calls
    Tdue = {}
    processed = set()
    Pfail = {}
    for idx, r in enumerate(log):
        tag = r[0]
        if tag == 'T':
            Tdue[r[2]] = (r[8], r[3], r[1])
        elif tag == 'P':
            processed.add(r[2])
            if r[5] is False and isinstance(r[6], tuple):
                Pfail[r[2]] = r[6]
        elif tag == 'D':
            what = r[4]
            if what == 'until':
                _, g, now, st, _, t, out, a, now0 = r
                if out == 'ValueError':
                    stats['illegal_stop_refused'] = 1
                    if a != 0:
                        viol.append(('C03.2', 'refused run(until=%r) at now=%r still had an effect' % (t, now0)))
                elif out == 'illegal-accepted':
                    viol.append(('C03.2', 'run(until=%r) at now=%r was not refused with ValueError' % (t, now0)))
                elif out == 'ret':
                    stops += 1
                    if now0 + (t - now0) != t:
                        stats['nasty_stop_time'] = 1
                    if now != t:
                        viol.append(('C03.2', 'run(until=%r) returned with now == %r' % (t, now)))
                    if a is not None:
                        viol.append(('C03.2', 'run(until=%r) returned %r, not None' % (t, a)))
                    for lb, (due, kind, tg) in Tdue.items():
                        if kind == 'until':
                            continue
                        if due < t and lb not in processed and tg < g:
                            viol.append(('C03.2', 'run(until=%r) returned although %s due at %r had not taken effect'
                                         % (t, lb, due)))
                            break
                        if due == t and tg < g:
                            stats['stop_at_instant_with_due_normal_event'] = 1
                            if lb in processed:
                                viol.append(('C03.2', 'run(until=%r) let %s, due at exactly %r, take effect before '
                                             'stopping' % (t, lb, t)))
                                break
            elif what == 'until_ev':
                _, g, now, st, _, lb, out, val, same, was, nsteps = r
                stops += 1
                stats['until_event_stop'] = 1
                if isinstance(lb, str) and lb.startswith('drv.'):
                    stats['until_condition_stop'] = 1
                if was:
                    stats['until_event_already_processed'] = 1
                    if nsteps != 0:
                        viol.append(('C03.3', 'run(until=%s) on an already processed event executed %d steps' % (lb, nsteps)))
                if out == 'ret':
                    if same is False:
                        viol.append(('C03.3', 'run(until=%s) returned %r which is not the event\'s value' % (lb, val)))
                    if lb not in processed:
                        viol.append(('C03.3', 'run(until=%s) returned before the event was processed' % lb))
                    elif not was:
                        # the event must have been processed in the last step of this call
                        last_p = None
                        for q in range(idx - 1, -1, -1):
                            if log[q][0] == 'P':
                                last_p = log[q]
                                break
                        if last_p is None or last_p[2] != lb:
                            viol.append(('C03.3', 'run(until=%s) kept running after the event was processed (last '
                                         'occurrence processed: %s)' % (lb, last_p[2] if last_p else None)))
                        # probe: a waiter registered after run() began
                        for q in range(idx - 1, -1, -1):
                            x = log[q]
                            if x[0] == 'D':
                                break
                            if x[0] == 'Y' and x[6] == lb and not x[7]:
                                stats['until_event_gains_waiter_after_run_began'] = 1
                                break
                elif out == 'exc':
                    pf = Pfail.get(lb)
                    if pf is not None and isinstance(val, tuple) and val[1:] == pf[1:]:
                        stats['until_event_failed'] = 1      # the until-event failed: run() reports that failure
                    elif not (isinstance(val, tuple) and val[1] == 'RuntimeError' and lb not in processed):
                        # an unhandled failure of the program that escaped from a step of this call ends the call too
                        prevx = next((q for q in reversed(log[:idx]) if q[0] in ('X', 'D')), None)
                        if not (prevx is not None and prevx[0] == 'X' and prevx[3] == val):
                            viol.append(('C03.3', 'run(until=%s) raised %r' % (lb, val)))
    if isinstance(case.get('t0'), int) and case.get('t0', 0) > 2 ** 53:
        stats['big_int_clock'] = 1
    for it in case.get('drive', []):
        if it[0] == 'steps':
            stats['step_split'] = 1
            stops += 1
    # split transparency
    a = canon(ref_log)
    b = canon(log)
    d = first_diff(a, b)
    if d is not None:
        viol.append(('C03.4', 'split execution diverges from the uninterrupted run at canonical record %d: '
                     'uninterrupted %r, split %r' % d))
    return viol, stats, stops


def run(case):
    if case.get('engine') == 'N':
        return run_net(case)
    cap = 4000 + (90000 if case.get('long_run') else 0)
    ref = setup_world(case)
    drive(ref, [['run']], max_steps=cap)
    ref_log = ref.env.log
    crashy = any(r[0] == 'X' for r in ref_log)
    plan = list(case.get('drive', [])) + [['run']]
    if crashy:
        # a condition the driver builds would count as the handler of an operand's failure: only in crash-free programs
        plan = [['steps', 3] if it[0] == 'until_cond' else it for it in plan]
    w = setup_world(case)
    steps = drive(w, plan, max_steps=cap)
    case2 = dict(case)
    case2['drive'] = plan
    viol, stats, stops = check_split(w, case2, ref_log)
    res = {'viol': viol, 'digest': digest_of((canon(ref_log), w.env.log)), 'nontrivial': stops >= 2, 'stats': stats,
           'simtime': float(w.env.now) - float(case.get('t0', 0)), 'steps': steps + ref.env.step_no}
    if case.get('_excerpt'):
        res['excerpt'] = excerpt(w.env)
    return res
