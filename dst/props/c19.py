"""C19 - a Timer fires exactly at its expiry, and stop/restart always take effect (DESIGN.md C19)."""
from ..core import digest_of, san
from ..tap import TapEnvironment, EmptySchedule, StopSimulation
from onl.utils import Timer

ID = 'C19'
TIERS = {'quick': {'runs': 20000, 'budget_s': 30}, 'thorough': {'runs': 1200000, 'budget_s': 600}}
RULE = ('one or two real Timers (one-shot / auto-restart; timeouts from GRID / FLOAT / NASTY pools; scalar, list and keyword '
        'arguments) with controller processes and the callback itself issuing stop() / restart(tau) before, exactly at and '
        'after expiries, several per instant, controllers created before or after the timer; a three-field reference timer '
        '(pending expiry, stopped, period) is advanced along the G-ordered log; non-trivial = at least one stop/restart '
        'landed while an expiry was pending; distinct = history digest')
REAL = ['onl.utils.timer.Timer', 'onl.sim kernel']
STUBS = ['controller processes, creator process, the timer callback (brackets its own execution in the log)']
ASSUMPTIONS = ['restart() after stop() and restart() of an expired one-shot timer outside its callback are unspecified: '
               'afterwards only "nothing raises" is demanded for that timer',
               'timeouts are chosen so that t0 + timeout > t0 in floating point']
PROBES = ['timer_rearmed_from_its_callback_a_thousand_times', 'timer_acted_on_from_another_timers_callback', 'drained_to_the_end_of_time', 'restart_from_callback', 'stop_from_callback', 'stop_at_expiry_instant_before_firing',
          'op_at_expiry_instant_after_firing', 'two_restarts_one_instant', 'nasty_expiry', 'auto_restart_fired_ge3',
          'scalar_args', 'kwargs', 'restart_pending', 'stop_pending']

GRID = [0.25, 0.5, 1, 1, 1.5, 2, 3]
FLOAT = [0.1, 0.2, 0.3, 0.7, 1.1, 2.675]
NASTY = [0.1 + 0.2, 1.0 - 2.0 ** -53, 1.0 + 2.0 ** -52, 1.9999999999999998, 3.0000000000000004, 0.7, 2.0 ** -20 + 1, 1e-3]


def gen(rng, tier):
    poolname = rng.choice(['GRID', 'GRID', 'FLOAT', 'NASTY'])
    pool = {'GRID': GRID, 'FLOAT': FLOAT, 'NASTY': NASTY}[poolname]
    t0 = rng.choice([0, 0, 1, 0.5, 10]) if poolname != 'NASTY' else rng.choice([0, 1.0000000000000002, 0.1, 7.3])
    r0 = rng.random()
    if r0 < 0.08:
        # a clock with a negative origin and decimal timeouts whose expiry is a round number (-0.57 + 1.57)
        poolname, t0 = 'NEG', rng.choice([-0.57, -0.09, -1.13, -0.57])
        pool = [1.57, 0.34, 9.13, 0.09, 1.13, 2.57]
    elif r0 < 0.14:
        # a clock so large that small timeouts are below its resolution (epoch seconds and 100 ns)
        poolname, t0 = 'ABSORB', 1.7e9
        pool = [1e-7, 1e-8, 0.5, 1, 2]
    elif r0 < 0.17:
        # timeouts so large that a doubled one overflows to infinity ("never"): such a timer never fires and the run ends
        poolname, t0 = 'OVERFLOW', rng.choice([0, 5])
        pool = [1e308, float('inf'), 1, 2, 1e308]
    nt = rng.choice([1, 1, 2])
    timers = []
    for k in range(nt):
        argstyle = rng.choice(['none', 'scalar', 'list', 'kwargs', 'scalar'])
        tm = {'id': 'T%d' % k, 'create_at': rng.choice([0, 0, 0, 0.5, 1]), 'timeout': rng.choice(pool),
              'auto': rng.random() < 0.4, 'args': None, 'kwargs': None, 'incb': {}}
        if argstyle == 'scalar':
            tm['args'] = rng.choice([7, 0, 512, 'x'])
        elif argstyle == 'list':
            tm['args'] = [rng.randint(0, 9) for _ in range(rng.randint(0, 3))]
        elif argstyle == 'kwargs':
            tm['args'] = [1]
            tm['kwargs'] = {'k': rng.randint(0, 9)}
        for fi in range(4):
            if rng.random() < 0.25:
                r = rng.random()
                if r < 0.3:
                    tm['incb'][str(fi)] = [['stop']]
                elif r < 0.9:
                    tm['incb'][str(fi)] = [['restart', rng.choice(pool)]]
                else:
                    tm['incb'][str(fi)] = [['restart', rng.choice(pool)], ['restart', rng.choice(pool)]]
                if nt >= 2 and rng.random() < 0.4:
                    other = 'T%d' % ((k + 1) % nt)
                    tm['incb'][str(fi)] = [(op + [None] if len(op) < 2 else op) + [other] for op in tm['incb'][str(fi)]]
        timers.append(tm)
    ctls = []
    for c in range(rng.choice([0, 1, 1, 2, 3])):
        ops = []
        for _ in range(rng.randint(1, 4)):
            d = rng.choice([0, 0] + pool)
            tid = 'T%d' % rng.randrange(nt)
            if rng.random() < 0.35:
                ops.append([d, 'stop', tid])
            else:
                ops.append([d, 'restart', tid, rng.choice(pool)])
        ctls.append({'id': 'c%d' % c, 'ops': ops})
    if poolname == 'GRID' and rng.random() < 1 / 150:
        # a long life: a one-shot timer re-armed from its own callback well over a thousand times
        timers[0]['auto'] = False
        timers[0]['timeout'] = 0.25
        timers[0]['incb'] = {}
        timers[0]['incb_all'] = [['restart', 0.25]]
        timers[0]['incb_n'] = rng.randint(1050, 1300)
        long_life = True
    else:
        long_life = False
    order = [t['id'] for t in timers] + [c['id'] for c in ctls]
    rng.shuffle(order)
    if poolname == 'ABSORB':
        for t in timers:
            t['auto'] = False
    case = {'engine': 'T', 'pool': poolname, 't0': t0, 'timers': timers, 'ctls': ctls, 'order': order,
            'horizon': t0 + rng.choice([6, 10, 15])}
    if long_life:
        case['horizon'] = t0 + 400
        case['long_life'] = True
    return case


def _absorbed(case, x):
    # a duration below the resolution of the clock at the end of the run
    h = abs(case.get('horizon', 0)) + abs(case.get('t0', 0)) + 1.0
    return h + x == h


def valid(case):
    # an auto-restart timer whose period is below the clock's resolution fires for ever within one instant (as any
    # `while True: yield env.timeout(tiny)` would): legal, but not a run that ends
    tiny = any(_absorbed(case, t.get('timeout', 1)) for t in case.get('timers', [])) or \
        any(_absorbed(case, op[1]) for t in case.get('timers', []) for ops in (t.get('incb') or {}).values()
            for op in ops if op and op[0] == 'restart' and len(op) > 1) or \
        any(_absorbed(case, op[3]) for c in case.get('ctls', []) for op in c.get('ops', [])
            if len(op) > 3 and op[1] == 'restart')
    if tiny and any(t.get('auto') for t in case.get('timers', [])):
        return False
    for t in case.get('timers', []):
        if not (t.get('timeout', 0) > 0):
            return False
        for ops in (t.get('incb') or {}).values():
            for op in ops:
                if op and op[0] == 'restart' and not (len(op) > 1 and op[1] > 0):
                    return False
    for c in case.get('ctls', []):
        for op in c.get('ops', []):
            if len(op) < 3 or op[0] < 0 or (op[1] == 'restart' and not (len(op) > 3 and op[3] > 0)):
                return False
    return True


class World:
    def __init__(self, case):
        self.case = case
        self.env = TapEnvironment(case.get('t0', 0))
        self.env.tap_enabled = False
        self.timers = {}
        self.fired = {}
        self.depth = {}

    def rec(self, tag, *rest):
        env = self.env
        env.log.append((tag, env.tick(), env.now) + rest)

    def do(self, who, tid, op, where):
        t = self.timers.get(tid)
        if t is None:
            self.rec('OP', who, tid, op[0], op[1] if len(op) > 1 else None, 'no-timer', where)
            return
        try:
            if op[0] == 'stop':
                t.stop()
            else:
                t.restart(op[1])
            out = 'ok'
        except Exception as e:
            out = san(e)
        self.rec('OP', who, tid, op[0], op[1] if len(op) > 1 else None, out, where)

    def make_cb(self, tm):
        tid = tm['id']

        def cb(*args, **kwargs):
            k = self.fired.get(tid, 0)
            self.fired[tid] = k + 1
            self.rec('CB', tid, 'enter', k, san(args), san(kwargs))
            ops_now = (tm.get('incb') or {}).get(str(k), [])
            if not ops_now and tm.get('incb_all') and k < tm.get('incb_n', 0):
                ops_now = tm['incb_all']       # a timer that re-arms itself from its callback, firing after firing
            for op in ops_now:
                # optional third field: the callback acts on another timer (a watchdog kicked by a keep-alive timer)
                target = op[2] if len(op) > 2 and op[2] else tid
                self.do('cb:' + tid, target, op, 'in-callback' if target == tid else 'callback-of-another-timer')
            self.rec('CB', tid, 'exit', k, None, None)
        return cb

    def creator(self, tm):
        env = self.env
        if tm.get('create_at', 0) > 0:
            yield env.timeout(tm['create_at'])
        kw = {}
        if tm.get('args') is not None:
            kw['args'] = tm['args']
        if tm.get('kwargs') is not None:
            kw['kwargs'] = tm['kwargs']
        try:
            t = Timer(env, tm['timeout'], self.make_cb(tm), auto_restart=tm.get('auto', False), **kw)
            self.timers[tm['id']] = t
            self.rec('NEW', tm['id'], tm['timeout'], tm.get('auto', False), 'ok')
        except Exception as e:
            self.rec('NEW', tm['id'], tm['timeout'], tm.get('auto', False), san(e))
        if False:
            yield

    def controller(self, c):
        env = self.env
        for op in c.get('ops', []):
            yield env.timeout(op[0])
            self.do(c['id'], op[2], [op[1]] + list(op[3:4]), 'controller')


def run(case):
    w = World(case)
    env = w.env
    tm_by = {t['id']: t for t in case.get('timers', [])}
    ct_by = {c['id']: c for c in case.get('ctls', [])}
    for name in case.get('order', []) or (list(tm_by) + list(ct_by)):
        if name in tm_by:
            env.process(w.creator(tm_by.pop(name)))
        elif name in ct_by:
            env.process(w.controller(ct_by.pop(name)))
    for t in tm_by.values():
        env.process(w.creator(t))
    for c in ct_by.values():
        env.process(w.controller(c))
    H = case.get('horizon', 10)
    n = 0
    raised = []
    while n < 20000 and env.peek() <= H:
        try:
            env.step()
        except EmptySchedule:
            break
        except StopSimulation:
            pass
        except Exception as e:
            raised.append(san(e))
            w.rec('ERR', san(e))
        n += 1
    viol, stats, nontrivial = check(w, case, H)
    if any(t.get('incb_all') for t in case.get('timers', [])):
        stats['timer_rearmed_from_its_callback_a_thousand_times'] = 1
    if case.get('pool') == 'OVERFLOW' and not any(t.get('auto') for t in case.get('timers', [])):
        # nothing periodic: the run must come to an end, also at the end of time
        stats['drained_to_the_end_of_time'] = 1
        m = 0
        while m < 5000:
            try:
                env.step()
            except EmptySchedule:
                break
            except StopSimulation:
                pass
            except Exception as e:
                viol.append(('C19.4', 'the run raised %r' % (san(e),)))
                break
            m += 1
        if m >= 5000:
            viol.append(('C19.4', 'the timers keep the simulation alive for ever (5000 further steps, now=%r)' % (env.now,)))
    res = {'viol': viol, 'digest': digest_of(env.log), 'nontrivial': nontrivial, 'stats': stats,
           'simtime': float(env.now) - float(case.get('t0', 0)), 'steps': n}
    if case.get('_excerpt'):
        res['excerpt'] = [repr(r) for r in env.log[-80:]]
    return res


def check(w, case, H):
    viol, stats = [], {}
    log = w.env.log
    spec = {t['id']: t for t in case.get('timers', [])}
    st = {}          # tid -> dict(E, stopped, period, lenient, incb, auto)
    nontrivial = False
    last_op_time = {}
    for r in log:
        tag = r[0]
        now = r[2]
        # an expiry that lies strictly in the past must have fired
        for tid, s in st.items():
            if s['E'] is not None and not s['lenient'] and now > s['E'] and not s['missed']:
                s['missed'] = True
                viol.append(('C19.1', 'timer %s: the expiry pending for t=%r never fired (now %r)' % (tid, s['E'], now)))
        if tag == 'NEW':
            _, g, now, tid, timeout, auto, out = r
            if out != 'ok':
                viol.append(('C19.4', 'creating timer %s (timeout %r) raised %r' % (tid, timeout, out)))
                continue
            st[tid] = {'E': now + timeout, 'stopped': False, 'period': timeout, 'lenient': False, 'incb': None,
                       'auto': auto, 'missed': False, 'fired_at': None, 'nfired': 0}
            if case.get('pool') == 'NASTY':
                stats['nasty_expiry'] = 1
        elif tag == 'OP':
            _, g, now, who, tid, op, tau, out, where = r
            if out == 'no-timer':
                continue
            if out != 'ok':
                viol.append(('C19.4', '%s(%s) on timer %s at t=%r (%s) raised %r' %
                             (op, '' if tau is None else repr(tau), tid, now, where, out)))
            s = st.get(tid)
            if s is None:
                continue
            incb = s['incb'] is not None
            if s['fired_at'] == now and not incb:
                stats['op_at_expiry_instant_after_firing'] = 1
            if where == 'callback-of-another-timer':
                stats['timer_acted_on_from_another_timers_callback'] = 1
            if op == 'stop':
                if s['E'] is not None:
                    nontrivial = True
                    stats['stop_pending'] = 1
                    if s['E'] == now:
                        stats['stop_at_expiry_instant_before_firing'] = 1
                if incb:
                    stats['stop_from_callback'] = 1
                    s['incb'] = 'stopped'
                s['stopped'] = True
                s['E'] = None
            else:
                if last_op_time.get(tid) == ('restart', now):
                    stats['two_restarts_one_instant'] = 1
                if s['stopped']:
                    s['lenient'] = True          # restart after stop: unspecified, must only not raise
                elif incb:
                    stats['restart_from_callback'] = 1
                    s['incb'] = 'restarted'
                    s['E'] = now + tau
                    s['period'] = tau
                    nontrivial = True
                elif s['E'] is not None:
                    stats['restart_pending'] = 1
                    nontrivial = True
                    s['E'] = now + tau
                    s['period'] = tau
                else:
                    s['lenient'] = True          # expired one-shot restarted from outside: unspecified
            last_op_time[tid] = (op, now)
        elif tag == 'CB':
            _, g, now, tid, what, k, args, kwargs = r
            s = st.get(tid)
            if s is None:
                viol.append(('C19.1', 'callback of unknown timer %s' % tid))
                continue
            if what == 'enter':
                tm = spec.get(tid, {})
                a = tm.get('args')
                want_args = () if a is None else (tuple(a) if isinstance(a, list) else (a,))
                want_kw = tuple((k2, v) for k2, v in (tm.get('kwargs') or {}).items())
                if a is not None and not isinstance(a, list):
                    stats['scalar_args'] = 1
                if want_kw:
                    stats['kwargs'] = 1
                if args != want_args or tuple(kwargs) != want_kw:
                    viol.append(('C19.1', 'timer %s fired with args %r kwargs %r, given %r / %r' %
                                 (tid, args, kwargs, want_args, want_kw)))
                if not s['lenient']:
                    if s['stopped']:
                        viol.append(('C19.2', 'timer %s fired at t=%r after stop()' % (tid, now)))
                    elif s['E'] is None:
                        viol.append(('C19.3', 'timer %s fired at t=%r although no expiry was pending (a second firing for '
                                     'one expiry, or the old expiry of a restarted timer)' % (tid, now)))
                    elif s['E'] != now:
                        viol.append(('C19.1' if now > s['E'] else 'C19.3',
                                     'timer %s fired at t=%r; its pending expiry is t=%r' % (tid, now, s['E'])))
                s['E'] = None
                s['incb'] = 'running'
                s['fired_at'] = now
                s['nfired'] += 1
                if s['nfired'] >= 3 and s['auto']:
                    stats['auto_restart_fired_ge3'] = 1
            else:
                if s['incb'] == 'running' and s['auto'] and not s['stopped']:
                    s['E'] = now + s['period']
                s['incb'] = None
        elif tag == 'ERR':
            viol.append(('C19.4', 'the run raised %r' % (r[3],)))
    for tid, s in st.items():
        if s['E'] is not None and not s['lenient'] and s['E'] < H and not s['missed'] and w.env.peek() > H:
            viol.append(('C19.1', 'timer %s: the expiry pending for t=%r never fired (run ended at horizon %r)' %
                         (tid, s['E'], H)))
    return viol, stats, nontrivial
