"""C12 - schedulers: work-conserving, non-preemptive, rate-exact, per-flow FIFO, truthful counters (DESIGN.md C12)."""
from ..core import digest_of
from .. import sched

from ..net import valid_workloads_noreuse as valid  # noqa: E402,F401

ID = 'C12'
SHRINK_KEEP = ('rate', 'table', 'fmap', 'flows')
TIERS = {'quick': {'runs': 8000, 'budget_s': 30}, 'thorough': {'runs': 400000, 'budget_s': 600}}
RULE = ('each of SP, WFQ, VC, DRR, RR, WRR between a harness injector and a recording sink; 1-5 configured flows; '
        'weights / priorities / vticks; identity and many-to-one flow2class maps (WFQ, VC, DRR); bursts, idle gaps, arrivals '
        'placed exactly at transmission ends (GRID), coincidence-free instants (DISTINCT) or float instants; optional '
        'Monitor with scripted sampling; non-trivial = some packet had to wait; distinct = history digest')
REAL = ['onl.scheduler.SP/WFQ/VC/DRR/RR/WRR', 'onl.scheduler.base', 'onl.scheduler.monitor.Monitor', 'onl.sim kernel']
STUBS = ['injector, taps, recording sink, scripted sampling distribution']
ASSUMPTIONS = ['workloads use configured flows only', 'counters are read after every tap; packet_in_service and Monitor '
               'samples are lenient at instants where a transmission starts or ends',
               'FLOAT workloads: relative tolerance 1e-9 on instants; GRID/DISTINCT exact']
PROBES = ['compared_with_bare_twin', 'library_port_downstream', 'no_downstream_device', 'back_to_back', 'arrival_exactly_at_transmission_end', 'monitor_sample', 'many_to_one_map',
          'kind_SP', 'kind_WFQ', 'kind_VC', 'kind_DRR', 'kind_RR', 'kind_WRR']


def gen(rng, tier):
    case = sched.gen_sched_case(rng, tier)
    if rng.random() < 0.06:
        case['no_out'] = rng.choice([True, 'never'])      # a scheduler with nothing attached downstream
        case.pop('shadow', None)
    return case


def check_no_out(r, case):
    """Nothing is attached downstream, so departures are invisible: what remains are the public counters."""
    viol, stats = [], {'no_downstream_device': 1}
    w = r.w
    for rec in w.log:
        if rec[0] == 'ERR':
            viol.append(('C12.6/%s' % (rec[4][1] if isinstance(rec[4], tuple) and len(rec[4]) > 1 else 'exc'),
                         'the run raised %r' % (rec[4],)))
    if not w.quiescent:
        viol.append(('C12.6', 'the run did not reach quiescence'))
    fin = [rec for rec in w.log if rec[0] == 'FIN']
    if fin and not viol:
        per, total, cur, _d = fin[-1][3] if isinstance(fin[-1][3], tuple) and len(fin[-1][3]) == 4 else ((), None, '?', None)
        if total != 0 or any(n or b for _f, n, b in per):
            viol.append(('C12.4', 'after the last transmission the counters still report packets: total %r, per flow %r' %
                         (total, per)))
        if cur is not None:
            viol.append(('C12.4', 'the scheduler is idle but packet_in_service still names a packet (%r)' % (cur,)))
    if r.mon is not None:
        for f, lst in list(r.mon.sizes.items()) + list(r.mon.byte_sizes.items()):
            if any(v < 0 for v in lst):
                viol.append(('C12.5', 'Monitor reports a negative occupancy for flow %r: %r' % (f, lst[:8])))
                break
    return viol, stats, len(case.get('workload', [])) >= 2


def run(case):
    r = sched.run_sched(case)
    H = None
    if case.get('no_out'):
        viol, stats, nontrivial = check_no_out(r, case)
    else:
        H = sched.parse(r)
        viol, stats, nontrivial = sched.check_generic(H, case, ID)
    stats['kind_' + case['kind']] = 1
    if case.get('fmap') is not None:
        stats['many_to_one_map'] = 1
    if getattr(H, 'rate2_busy', False):
        viol = []          # the rate changed in mid busy period: no verdict from this run (see sched.parse)
    viol += sched.twin_check(r, case, ID, stats)
    res = {'viol': viol, 'digest': digest_of(r.w.log), 'nontrivial': nontrivial, 'stats': stats,
           'simtime': float(r.w.env.now), 'steps': r.w.steps}
    if case.get('_excerpt'):
        res['excerpt'] = [repr(x) for x in r.w.log[-80:]]
    return res
