"""C12 - schedulers: work-conserving, non-preemptive, rate-exact, per-flow FIFO, truthful counters (DESIGN.md C12)."""
from ..core import digest_of
from .. import sched

from ..net import valid_workloads_noreuse as valid  # noqa: E402,F401

ID = 'C12'
SHRINK_KEEP = ('rate', 'table', 'fmap', 'flows')
TIERS = {'quick': {'runs': 8000, 'budget_s': 30}, 'thorough': {'runs': 400000, 'budget_s': 600}}
RULE = ('each of SP, WFQ, VC, DRR, RR, WRR between a harness injector and a recording sink; 1-5 configured flows; '
        'weights / priorities / vticks; identity and many-to-one flow2class maps (WFQ, VC, DRR); bursts, idle gaps, arrivals '
        'placed exactly at transmission ends (GRID), coincidence-free instants (DISTINCT) or float instants; optional '
        'Monitor with scripted sampling; non-trivial = some packet had to wait; distinct = history digest')
REAL = ['onl.scheduler.SP/WFQ/VC/DRR/RR/WRR', 'onl.scheduler.base', 'onl.scheduler.monitor.Monitor', 'onl.sim kernel']
STUBS = ['injector, taps, recording sink, scripted sampling distribution']
ASSUMPTIONS = ['workloads use configured flows only', 'counters are read after every tap; packet_in_service and Monitor '
               'samples are lenient at instants where a transmission starts or ends',
               'FLOAT workloads: relative tolerance 1e-9 on instants; GRID/DISTINCT exact']
PROBES = ['back_to_back', 'arrival_exactly_at_transmission_end', 'monitor_sample', 'many_to_one_map',
          'kind_SP', 'kind_WFQ', 'kind_VC', 'kind_DRR', 'kind_RR', 'kind_WRR']


def gen(rng, tier):
    return sched.gen_sched_case(rng, tier)


def run(case):
    r = sched.run_sched(case)
    H = sched.parse(r)
    viol, stats, nontrivial = sched.check_generic(H, case, ID)
    stats['kind_' + case['kind']] = 1
    if case.get('fmap') is not None:
        stats['many_to_one_map'] = 1
    res = {'viol': viol, 'digest': digest_of(r.w.log), 'nontrivial': nontrivial, 'stats': stats,
           'simtime': float(r.w.env.now), 'steps': r.w.steps}
    if case.get('_excerpt'):
        res['excerpt'] = [repr(x) for x in r.w.log[-80:]]
    return res
