"""C13 - static priority always serves the highest-priority backlogged flow (DESIGN.md C13)."""
from ..core import digest_of
from .. import sched

from ..net import valid_workloads_noreuse as _valid


def valid(case):
    # empty packets (size 0, zero transmission time) are legal for SP
    c = dict(case)
    c['workload'] = [[x[0], x[1], max(1, x[2])] + list(x[3:]) for x in case.get('workload', []) if len(x) >= 3]
    return _valid(c) and all(x[2] >= 0 for x in case.get('workload', []) if len(x) >= 3)

ID = 'C13'
SHRINK_KEEP = ('rate', 'table', 'fmap', 'flows')
TIERS = {'quick': {'runs': 8000, 'budget_s': 30}, 'thorough': {'runs': 400000, 'budget_s': 600}}
RULE = ('SP with 2-5 flows and positive priorities (ties allowed) under workloads that keep several levels backlogged; '
        'a service start is the departure minus 8*size/rate; a violation needs a strictly-higher-priority packet that '
        'arrived at a strictly earlier instant and left later; non-trivial = at some service start >=2 priority levels '
        'were backlogged; distinct = history digest')
REAL = ['onl.scheduler.sp.SP', 'onl.scheduler.base', 'onl.sim kernel']
STUBS = ['injector, taps, recording sink']
ASSUMPTIONS = ['same-instant leniency: packets arriving at the very instant of a service start never cause an alarm']
PROBES = ['compared_with_bare_twin', 'library_port_downstream', 'empty_packets', 'ge2_levels_backlogged', 'urgent_arrival_during_lower_transmission']


def gen(rng, tier):
    case = sched.gen_sched_case(rng, tier, kind='SP', monitor=False)
    if rng.random() < 0.1:
        # empty packets (keep-alives): zero bytes, zero transmission time
        for x in case['workload']:
            if rng.random() < 0.3:
                x[2] = 0
        case['empty_packets'] = True
    return case


def run(case):
    r = sched.run_sched(case)
    H = sched.parse(r)
    viol, stats = sched.check_sp(H, case, ID)
    for e in H.errs:
        viol.append(('%s.2/%s' % (ID, e[1] if isinstance(e, tuple) and len(e) > 1 else 'exc'), 'the run raised %r' % (e,)))
    # "a transmission in progress is never aborted": every packet leaves exactly once, transmissions never overlap
    # and each lasts exactly 8*size/rate (the timing law and the exactly-once clause of the scheduler rig)
    vg, _sg, _nt = sched.check_generic(H, case, 'C13g')
    for cl, msg in vg:
        if cl in ('C13g.1', 'C13g.2'):
            viol.append(('C13.2', 'non-preemptive service: ' + msg))
    if case.get('empty_packets'):
        stats['empty_packets'] = 1
    if getattr(H, 'rate2_busy', False):
        viol = []          # the rate changed in mid busy period: no verdict from this run (see sched.parse)
    viol += sched.twin_check(r, case, ID, stats)
    res = {'viol': viol, 'digest': digest_of(r.w.log), 'nontrivial': bool(stats.get('ge2_levels_backlogged')),
           'stats': stats, 'simtime': float(r.w.env.now), 'steps': r.w.steps}
    if case.get('_excerpt'):
        res['excerpt'] = [repr(x) for x in r.w.log[-80:]]
    return res
