"""C18 - demuxes, switches, hubs, splitters and fat-tree FIBs deliver to the right place (DESIGN.md C18)."""
import random as _random

import networkx as nx

from ..core import digest_of, san
from ..net import NetWorld, InTap, OutTap, Recorder, Script, start_injector, gen_times, fields_of
from onl.packet import Packet, PacketSink
from onl.netdev import Hub, Wire, Splitter, NSplitter, SimplePacketSwitch, FairPacketSwitch
from onl.netdev.demux import FlowDemux, FIBDemux
from onl.topo import FatTree
import onl.topo.fattree as ft_mod

ID = 'C18'
SHRINK_KEEP = ('k', 'seed', 'server', 'cmap', 'buffer', 'ports', 'delays')
TIERS = {'quick': {'runs': 3000, 'budget_s': 30}, 'thorough': {'runs': 150000, 'budget_s': 600}}
RULE = ('four scenario families: (demux) FlowDemux / FIBDemux / SimplePacketSwitch / FairPacketSwitch with generated tables '
        '(incl. empty), output lists, end-device maps, default outputs, known and unknown flow ids, recorders on every '
        'output; (hub) hub populations with and without Wire port devices, built by constructor and by add_endpoint; '
        '(split) Splitter / NSplitter with field mutation on the copies; (fattree) FatTree(k), k in {2,4,6}, seeded flow '
        'sets, generate_fib(tcp False/True), then a simulated fat tree of FairPacketSwitches (WFQ/DRR/SP/VirtualClock, '
        'identity and many-to-one class maps) with per-flow bursts run to quiescence; non-trivial = >=2 packets routed '
        'through >=2 distinct outputs/hops; distinct = history digest')
REAL = ['onl.netdev.demux.*', 'onl.netdev.switch.*', 'onl.netdev.hub.Hub', 'onl.netdev.splitter.*', 'onl.netdev.wire.Wire',
        'onl.topo.fattree.FatTree', 'onl.flow.Flow', 'onl.scheduler.*', 'onl.netdev.port.Port', 'onl.packet.PacketSink']
STUBS = ['injectors, endpoint devices, recorders, seeded replacement of onl.topo.fattree.sample']
ASSUMPTIONS = ['the lookup and graph clauses are pure functions of their input and are evaluated by inspection inside the '
               'generated scenarios; the simulated clauses (hub through wires, end-to-end delivery in the fat tree, several '
               'flows per class) are the simulation targets',
               'Splitter copies are shallow: only scalar header fields are required to be independent',
               'flow ids are non-negative']
PROBES = ['splitter_outputs_are_library_sinks', 'end_devices_registered_after_construction', 'hub_listener_without_element_id', 'first_output_stamps_synchronously', 'outputs_added_after_construction', 'table_replaced', 'split_packet_with_headers', 'sub_demux', 'sub_hub', 'sub_split', 'sub_fattree', 'empty_table', 'unknown_flow_to_default', 'unknown_flow_nowhere',
          'end_device_hit', 'hub_through_wires', 'hub_add_endpoint', 'two_hubs', 'hub_nested_reply', 'fattree_decoy', 'fattree_k2', 'fattree_k4', 'fattree_k6', 'fattree_tcp',
          'fattree_many_to_one', 'server_WFQ', 'server_DRR', 'server_SP', 'server_VirtualClock', 'ack_class_delivered']


# ------------------------------------------------------------------------------------------- generation

def gen(rng, tier):
    sub = rng.choice(['demux', 'demux', 'hub', 'split', 'fattree', 'fattree', 'fattree'])
    if sub == 'demux':
        kind = rng.choice(['FlowDemux', 'FIBDemux', 'FIBDemux', 'SimpleSwitch', 'FairSwitch'])
        nouts = rng.randint(0 if kind in ('FlowDemux', 'FIBDemux') else 1, 4)
        flows = [rng.randint(0, 7) for _ in range(rng.randint(1, 12))]
        if rng.random() < 0.15:
            # flow ids are not necessarily small non-negative numbers
            flows = [rng.choice([f, -1, -3, -f]) for f in flows]
        case = {'sub': 'demux', 'kind': kind, 'nouts': nouts, 'default': rng.random() < 0.5, 'flows': flows,
                'fib': [[f, rng.choice([rng.randint(0, max(0, nouts))] * 9 + [-1, -2])] for f in range(-3, 8)
                        if rng.random() < 0.6] if rng.random() < 0.85 else [],
                'ends': [f for f in range(8) if rng.random() < 0.2],
                'server': rng.choice(['WFQ', 'DRR', 'SP', 'VirtualClock']), 'buffer': rng.choice([4, 64])}
        if kind == 'FlowDemux' and nouts >= 1 and rng.random() < 0.3:
            case['late_outs'] = rng.randrange(nouts)
        if kind == 'FIBDemux' and rng.random() < 0.3:
            case['late_ends'] = True
        if rng.random() < 1 / 40:
            # a long life: the same mix of routed, unknown and end-device flows, well over a thousand packets
            case['flows'] = (case['flows'] * (1600 // len(case['flows']) + 1))[:rng.choice([1300, 1600])]
            case['long_life'] = True
        if kind in ('FIBDemux', 'FairSwitch') and rng.random() < 0.35:
            # the table is replaced while traffic flows: routes appear, move and disappear
            case['fib2'] = [rng.randrange(len(flows) + 1), [[f, rng.randint(0, max(0, nouts))] for f in range(8) if rng.random() < 0.6]]
        return case
    if sub == 'hub':
        n = rng.randint(1, 5)
        return {'sub': 'hub', 'n': n, 'ports': [rng.random() < 0.5 for _ in range(n)] if rng.random() < 0.7 else None,
                'delays': [rng.choice([0.5, 1, 2, 3]) for _ in range(n)], 'via_add': rng.random() < 0.4,
                'second_hub': rng.random() < 0.5, 'responders': [rng.random() < 0.3 for _ in range(n)],
                'listeners': rng.choice([0, 0, 1, 2]),
                'sends': [[rng.choice([0, 0.5, 1, 2]), rng.randrange(n)] for _ in range(rng.randint(1, 6))]}
    if sub == 'split':
        return {'sub': 'split', 'n': rng.choice([2, 2, 3, 4]), 'use_n': rng.random() < 0.5,
                'connected': [rng.random() < 0.85 for _ in range(4)], 'npk': rng.randint(1, 5),
                'stamping_first': rng.random() < 0.3, 'lib_sinks': rng.random() < 0.3,
                # header fields beyond the constructor's: acknowledgements, coloured / stamped packets
                'hdr': [[rng.choice([0, 0, 512, 4096]), rng.choice(['', 'green', 'red']), rng.choice([0, 0.25, 7]),
                         rng.choice([None, [3, 2]]), rng.choice([None, ['p1', 0.5]])] for _ in range(5)]}
    k = rng.choice([2, 2, 4, 4, 4, 6] if tier == 'quick' else [2, 4, 4, 6, 6])
    nf = rng.randint(1, 12)
    return {'sub': 'fattree', 'k': k, 'nflows': nf, 'seed': rng.randrange(1 << 30), 'tcp': rng.random() < 0.4,
            'server': rng.choice(['WFQ', 'DRR', 'SP', 'VirtualClock']), 'cmap': rng.choice(['id', 'id', 'mod2', 'mod3', 'one']),
            'npk': rng.randint(1, 6), 'burst': rng.random() < 0.6, 'decoy': rng.random() < 0.3, 'rate': rng.choice([1 << 20, 1 << 24]), 'buffer': 1000}


def valid(case):
    return True


# ------------------------------------------------------------------------------------------- demux family

class Rec:
    def __init__(self, w, name):
        self.w, self.name = w, name
        self.got = []

    def put(self, p):
        self.w.rec('SINK', self.name, self.w.label(p))
        self.got.append(p)


def run_demux(w, case):
    viol, stats = [], {'sub_demux': 1}
    env = w.env
    kind = case['kind']
    nouts = case['nouts']
    outs = [Rec(w, 'out%d' % i) for i in range(nouts)]
    dflt = Rec(w, 'default') if case.get('default') else None
    fib = dict((f, p) for f, p in case.get('fib', []))
    ends = dict((f, Rec(w, 'end%d' % f)) for f in case.get('ends', []))
    if kind == 'FlowDemux':
        k0 = case.get('late_outs')
        if k0 is not None and k0 < len(outs):
            # the output list handed to the constructor grows afterwards (ports plugged in later)
            lst = list(outs[:k0])
            d = FlowDemux(lst, dflt)
            lst.extend(outs[k0:])
            stats['outputs_added_after_construction'] = 1
        else:
            d = FlowDemux(outs, dflt)
        entry = d
    elif kind == 'FIBDemux':
        if case.get('late_ends'):
            # the end-device map handed to the constructor is filled in afterwards (hosts attach later), exactly as
            # the forwarding table and the output list may be
            mine = {}
            d = FIBDemux(outs=outs, ends=mine, fib=fib, default_out=dflt)
            mine.update(ends)
            stats['end_devices_registered_after_construction'] = 1
        else:
            d = FIBDemux(outs=outs, ends=dict(ends), fib=fib, default_out=dflt)
        entry = d
    elif kind == 'SimpleSwitch':
        sw = SimplePacketSwitch(env, nouts, 1 << 20, case.get('buffer', 64), element_id='sw')
        for i, port in enumerate(sw.ports):
            port.out = outs[i]
        entry = sw
        dflt = None
    else:
        weights = dict((f, 1) for f in set(range(8)) | set(case.get('flows', [])))
        sw = FairPacketSwitch(env, nouts, 1 << 20, case.get('buffer', 64), weights, case.get('server', 'WFQ'), element_id='sw')
        sw.demux.fib = fib
        for f, e in ends.items():
            sw.demux.ends[f] = e
        for i, sch in enumerate(sw.ports):
            sch.out = outs[i]
        entry = sw
        dflt = None
    if not fib and kind in ('FIBDemux', 'FairSwitch'):
        stats['empty_table'] = 1
    sent = []
    fib2 = case.get('fib2') if kind in ('FIBDemux', 'FairSwitch') else None
    tables = [fib]

    def feeder():
        for n, f in enumerate(case.get('flows', [])):
            if fib2 and n == fib2[0]:
                tables.append(dict((ff, pp) for ff, pp in fib2[1]))
                (d if kind == 'FIBDemux' else sw.demux).fib = tables[-1]
                stats['table_replaced'] = 1
            p = Packet(env.now, 100, n + 1, flow_id=f, src='src')
            sent.append((p, f, tables[-1]))
            entry.put(p)
            yield env.timeout(0.25)
    env.process(feeder())
    w.run(max_steps=200000 if case.get("long_life") else 20000)
    for p, f, fib in sent:
        where = [r.name for r in outs + ([dflt] if dflt else []) + list(ends.values()) if any(q is p for q in r.got)]
        count = sum(sum(1 for q in r.got if q is p) for r in outs + ([dflt] if dflt else []) + list(ends.values()))
        if kind in ('FlowDemux', 'SimpleSwitch'):
            want = 'out%d' % f if 0 <= f < nouts else ('default' if dflt else None)
        else:
            if f in ends:
                want = 'end%d' % f
                stats['end_device_hit'] = 1
            elif f in fib and 0 <= fib[f] < nouts:
                want = 'out%d' % fib[f]
            else:
                want = 'default' if dflt else None
        if want == 'default':
            stats['unknown_flow_to_default'] = 1
        if want is None:
            stats['unknown_flow_nowhere'] = 1
        got = where[0] if count == 1 else (None if count == 0 else where)
        if got != want:
            viol.append(('C18.1', '%s: packet of flow %r was delivered to %r, lookup rule says %r (outs %d, fib %r, ends %r, '
                         'default %s)' % (kind, f, got, want, nouts, fib, sorted(ends), bool(dflt))))
            break
    return viol, stats, len(sent) >= 2


# ------------------------------------------------------------------------------------------- hub

class Endpoint:
    def __init__(self, w, eid, responder=False):
        self.w, self.element_id, self.out = w, eid, None
        self.got = []
        self.responder = responder
        self.replies = []

    def put(self, p):
        self.w.rec('SINK', self.element_id, self.w.label(p))
        self.got.append((self.w.env.now, p))
        if self.responder and p.payload == 'req' and self.out is not None:
            # answers from inside put(), through the same hub, in the same instant
            r = Packet(self.w.env.now, 40, 7000 + len(self.replies), src=self.element_id, payload='reply')
            self.replies.append((self.w.env.now, r))
            self.out.put(r)


def run_hub(w, case):
    viol, stats = [], {'sub_hub': 1}
    env = w.env
    n = case['n']
    resp = case.get('responders') or []
    eps = [Endpoint(w, 'ep%d' % i, responder=(i < len(resp) and bool(resp[i]))) for i in range(n)]
    pspec = case.get('ports')
    delays = case.get('delays', [1] * n)
    ports = None
    if pspec is not None:
        ports = [Wire(env, (lambda d=delays[i % len(delays)]: d)) if pspec[i % len(pspec)] else None for i in range(n)]
    try:
        if case.get('via_add'):
            stats['hub_add_endpoint'] = 1
            hub = Hub(env)
            for i, e in enumerate(eps):
                hub.add_endpoint(e, ports[i] if ports else None)
        elif ports is None:
            hub = Hub(env, list(eps))
        else:
            hub = Hub(env, list(eps), list(ports))
    except Exception as e:
        return [('C18.2/%s' % type(e).__name__, 'building a Hub with %d endpoints and ports %r raised %r' %
                 (n, pspec, e))], stats, False
    # listeners that have no element id of their own (the library's PacketSink never sets one): they hear everything
    listeners = []
    if case.get('listeners'):
        try:
            for _ in range(case['listeners']):
                ps = PacketSink(env)
                hub.add_endpoint(ps, None)
                listeners.append(ps)
        except Exception as e:
            return [('C18.2/%s' % type(e).__name__, 'attaching a PacketSink to the hub raised %r' % (e,))], stats, False
        stats['hub_listener_without_element_id'] = 1
    # a second, independent hub in the same simulation: its endpoints must hear nothing of the first one's traffic
    others = []
    if case.get('second_hub'):
        others = [Endpoint(w, 'other%d' % i) for i in range(2)]
        try:
            hub2 = Hub(env, list(others), [None, None])
        except Exception as e:
            return [('C18.2/%s' % type(e).__name__, 'building a second Hub raised %r' % (e,))], stats, False
        stats['two_hubs'] = 1
    sends = []

    def sender(t, i, k):
        if t > 0:
            yield env.timeout(t)
        p = Packet(env.now, 40, k, src=eps[i].element_id, payload='req')
        sends.append((env.now, i, p))
        eps[i].out.put(p)
        if False:
            yield
    for k, (t, i) in enumerate(case.get('sends', [])):
        if 0 <= i < n:
            env.process(sender(t, i, k))
    w.run(max_steps=20000)
    for t, i, p in sends:
        for j, e in enumerate(eps):
            arr = [tt for tt, q in e.got if q is p]
            if j == i:
                if arr:
                    viol.append(('C18.2', 'hub repeated a packet of %s back to its sender' % e.element_id))
                continue
            via = ports[j] if ports else None
            want = t + (delays[j % len(delays)] if via is not None else 0)
            if via is not None:
                stats['hub_through_wires'] = 1
            if len(arr) != 1:
                viol.append(('C18.2', 'endpoint %s received the packet sent by ep%d at t=%r %d times (expected once%s)' %
                             (e.element_id, i, t, len(arr), ', through its wire' if via is not None else '')))
            elif arr[0] != want:
                viol.append(('C18.2', 'endpoint %s received the packet sent by ep%d at t=%r at %r; %s gives %r' %
                             (e.element_id, i, t, arr[0], 'its port device (wire delay %r)' % delays[j % len(delays)]
                              if via is not None else 'a direct connection', want)))
    for r in w.log:
        if r[0] == 'ERR':
            viol.append(('C18.2/%s' % (r[4][1] if isinstance(r[4], tuple) and len(r[4]) > 1 else 'exc'),
                         'the hub scenario raised %r' % (r[4],)))
            return viol, stats, True
    nsent = len(sends) + sum(len(e.replies) for e in eps)
    for ps in listeners:
        got = sum(ps.packets_received.values())
        if got != nsent:
            viol.append(('C18.2', 'a listening PacketSink on the hub received %d of the %d packets sent' % (got, nsent)))
    # replies sent from inside put(): same rule, every endpoint but the replier, once
    for j, e in enumerate(eps):
        for t, rp in e.replies:
            stats['hub_nested_reply'] = 1
            for j2, e2 in enumerate(eps):
                cnt = sum(1 for tt, q in e2.got if q is rp)
                if j2 == j and cnt:
                    viol.append(('C18.2', 'hub repeated the reply of %s back to %s itself' % (e.element_id, e.element_id)))
                if j2 != j and cnt != 1:
                    viol.append(('C18.2', 'endpoint %s received the reply of %s %d times' % (e2.element_id, e.element_id, cnt)))
    for o in others:
        if o.got:
            viol.append(('C18.2', 'endpoint %s of another hub received %d packet(s) sent on this hub' % (o.element_id, len(o.got))))
    if others:
        p2 = Packet(env.now, 40, 999, src=others[0].element_id)
        n_before = [len(e.got) for e in eps]
        others[0].out.put(p2)
        w.run(max_steps=20000)
        if [len(e.got) for e in eps] != n_before:
            viol.append(('C18.2', 'a packet sent on the second hub was repeated to endpoints of the first hub'))
        if len(others[1].got) != 1:
            viol.append(('C18.2', 'the second hub delivered %d copies to its other endpoint' % len(others[1].got)))
    return viol, stats, len(sends) >= 1 and n >= 3


# ------------------------------------------------------------------------------------------- splitters

ALL_FIELDS = ('time', 'size', 'packet_id', 'realtime', 'src', 'dst', 'flow_id', 'payload', 'color', 'priorities', 'ack',
              'current_time', 'perhop_time')


def all_fields(p):
    return tuple((f, san(getattr(p, f, '<missing>'))) for f in ALL_FIELDS)


def run_split(w, case):
    viol, stats = [], {'sub_split': 1}
    n = case['n']
    conn = case.get('connected', [True] * 4)
    Rec = globals()['Rec']
    if case.get('lib_sinks'):
        # the outputs are library sinks (a subclass that also remembers what it was handed): a sink only reads packets -
        # it is still entitled to a copy of its own
        from onl.packet import PacketSink as _PS

        class Rec(_PS):                                      # noqa: F811
            def __init__(self, w, name):
                _PS.__init__(self, w.env)
                self.name, self.got = name, []

            def put(self, p):
                self.got.append(p)
                return _PS.put(self, p)
        stats['splitter_outputs_are_library_sinks'] = 1
    if case.get('use_n'):
        sp = NSplitter(n)
        recs = [Rec(w, 'o%d' % i) if conn[i % len(conn)] else None for i in range(n)]
        sp.outs = list(recs)
    else:
        sp = Splitter()
        recs = [Rec(w, 'o0') if conn[0] else None, Rec(w, 'o1') if conn[1 % len(conn)] else None]
        sp.out1, sp.out2 = recs
    if case.get('stamping_first') and recs[0] is not None:
        # the first output is a device that stamps the packet inside put() (as a Port does): the copies for the other
        # outputs are copies of the packet as it entered the splitter
        class Stamping(Rec):
            def put(self, p):
                p.perhop_time['first-branch'] = 42.0
                p.priorities['first-branch'] = 9
                return Rec.put(self, p)
        recs[0] = Stamping(w, 'o0')
        if case.get('use_n'):
            sp.outs[0] = recs[0]
        else:
            sp.out1 = recs[0]
        stats['first_output_stamps_synchronously'] = 1
    for k in range(case.get('npk', 1)):
        p = Packet(1.5, 100 + k, k + 1, src='s', flow_id=3, payload=('pl', k))
        hdr = (case.get('hdr') or [])
        if hdr:
            h = hdr[k % len(hdr)]
            p.ack, p.color, p.current_time = h[0], h[1], h[2]
            if h[3]:
                p.priorities[h[3][0]] = h[3][1]
            if h[4]:
                p.perhop_time[h[4][0]] = h[4][1]
            p.dst, p.realtime = 'd%d' % k, 0.5 * k
            if h[0] or h[1] or h[3] or h[4]:
                stats['split_packet_with_headers'] = 1
        before = fields_of(p)
        before_all = all_fields(p)
        sp.put(p)
        after_put = all_fields(p)      # the original as the first output left it
        for i, r in enumerate(recs):
            if r is None:
                continue
            got = r.got[-1] if len(r.got) == k + 1 else None
            if got is None:
                viol.append(('C18.3', 'splitter output %d did not receive packet %d exactly once' % (i, k + 1)))
                continue
            if i == 0:
                if got is not p:
                    viol.append(('C18.3', 'the first output of the splitter received a copy, not the original'))
            else:
                if got is p or any(got is q for j, rr in enumerate(recs) if rr is not None and j != i for q in rr.got):
                    viol.append(('C18.3', 'splitter output %d received an object shared with another output' % i))
                    continue
                if fields_of(got) != before:
                    viol.append(('C18.3', 'the copy on output %d differs from the original: %r vs %r' % (i, fields_of(got), before)))
                elif all_fields(got) != before_all:
                    viol.append(('C18.3', 'the copy on output %d differs from the original: %r vs %r' %
                                 (i, all_fields(got), before_all)))
                got.flow_id, got.packet_id, got.size, got.src, got.time = 99, 999, 1, 'changed', -1.0
                if fields_of(p) != before:
                    viol.append(('C18.3', 'changing header fields of the copy on output %d changed the original' % i))
                # what a port on this branch does to the copy: a per-hop stamp and a priority tag
                got.perhop_time['branch%d' % i] = 7.5
                got.priorities['branch%d' % i] = 3
                if all_fields(p) != after_put:
                    viol.append(('C18.3', 'stamping the copy on output %d (perhop_time / priorities) changed the original: '
                                 '%r' % (i, [x for x, y in zip(all_fields(p), after_put) if x != y])))
    return viol, stats, case.get('npk', 1) >= 2


# ------------------------------------------------------------------------------------------- fat tree

def run_fattree(w, case):
    viol, stats = [], {'sub_fattree': 1}
    env = w.env
    k = case['k']
    stats['fattree_k%d' % k] = 1
    rnd = _random.Random(case.get('seed', 0))
    saved = ft_mod.sample
    ft_mod.sample = lambda pop, n: rnd.sample(list(pop), n)
    try:
        ft = FatTree(k)
        G = ft.topo
        # structure
        layers = {}
        for n_, d in G.nodes(data=True):
            layers.setdefault(d.get('layer'), []).append(n_)
        want = {'core': (k // 2) ** 2, 'aggregation': k * k // 2, 'edge': k * k // 2, 'leaf': k ** 3 // 4}
        for lay, cnt in want.items():
            if len(layers.get(lay, [])) != cnt:
                viol.append(('C18.4', 'FatTree(%d) has %d %s nodes, expected %d' % (k, len(layers.get(lay, [])), lay, cnt)))
        for n_, d in G.nodes(data=True):
            if d.get('type') == 'switch' and G.degree(n_) != k:
                viol.append(('C18.4', 'FatTree(%d): switch %r (%s) has degree %d' % (k, n_, d.get('layer'), G.degree(n_))))
                break
            if d.get('layer') == 'edge':
                hosts = [x for x in G.neighbors(n_) if G.nodes[x].get('type') == 'host']
                if len(hosts) != k // 2:
                    viol.append(('C18.4', 'FatTree(%d): edge switch %r has %d hosts' % (k, n_, len(hosts))))
                    break
        if set(ft.hosts) != set(layers.get('leaf', [])):
            viol.append(('C18.4', 'FatTree.hosts differs from the host nodes of the graph'))
        if viol:
            return viol, stats, False
        flows = ft.generate_flows(case['nflows'])
        tcp = case.get('tcp', False)
        if tcp:
            stats['fattree_tcp'] = 1
        ft.generate_fib(flows, tcp=tcp)
        if case.get('decoy'):
            # a second tree of the same size with its own flows, built and routed before the first one is used
            ft2 = FatTree(k)
            fl2 = ft2.generate_flows(case['nflows'] + 1)
            ft2.generate_fib(fl2, tcp=tcp)
            stats['fattree_decoy'] = 1
    finally:
        ft_mod.sample = saved
    for fid, fl in flows.items():
        path = fl.path
        if fl.src == fl.dst or fl.src not in ft.hosts or fl.dst not in ft.hosts:
            viol.append(('C18.5', 'flow %r goes from %r to %r (must be two distinct hosts)' % (fid, fl.src, fl.dst)))
            continue
        if not path or path[0] != fl.src or path[-1] != fl.dst or any(not G.has_edge(a, b) for a, b in zip(path, path[1:])) \
                or len(path) - 1 != nx.shortest_path_length(G, fl.src, fl.dst):
            viol.append(('C18.5', 'flow %r: path %r is not a shortest path from %r to %r' % (fid, path, fl.src, fl.dst)))
            continue
        for key, seq in ((fid, path), (fid + 10000, list(reversed(path)))):
            if key != fid and not tcp:
                continue
            node = seq[0]
            hops = [node]
            ok = True
            while node != seq[-1] and len(hops) <= len(seq) + 1:
                nd = G.nodes[node]
                port = nd.get('flow_to_port', {}).get(key)
                if port is None or nd.get('port_to_nexthop', {}).get(port) is None:
                    ok = False
                    break
                node = nd['port_to_nexthop'][port]
                hops.append(node)
            if not ok or hops != seq:
                viol.append(('C18.5', 'flow %r (table key %r): the forwarding tables lead along %r, the flow path is %r' %
                             (fid, key, hops, seq)))
    if viol:
        return viol, stats, False
    # simulation: one switch per node, a burst per flow, run to quiescence
    server = case.get('server', 'WFQ')
    stats['server_' + server] = 1
    cmap = case.get('cmap', 'id')
    nfl = len(flows)
    keys = list(flows) + ([f + 10000 for f in flows] if tcp else [])
    if cmap != 'id':
        stats['fattree_many_to_one'] = 1
        m = {'mod2': 2, 'mod3': 3, 'one': 1}[cmap]

        def f2c(fid, m=m):
            return fid % m
        weights = dict((c, 1 + c) for c in range(m))
    else:
        def f2c(fid):
            return fid
        weights = dict((f, 1 + (f % 3)) if server != 'VirtualClock' else (f, 0.5) for f in keys)
    if server == 'VirtualClock':
        weights = dict((c, 0.25 * (1 + (i % 3))) for i, c in enumerate(weights))
    for n_ in G.nodes():
        nd = G.nodes[n_]
        dev = FairPacketSwitch(env, max(1, G.degree(n_)), case.get('rate', 1 << 20), case.get('buffer', 1000), dict(weights),
                               server, element_id=str(n_), flow2class=f2c)
        dev.demux.fib = nd['flow_to_port']
        nd['device'] = dev
    for n_ in G.nodes():
        nd = G.nodes[n_]
        for port, nh in nd['port_to_nexthop'].items():
            nd['device'].ports[port].out = G.nodes[nh]['device']
    sinks = {}
    for fid, fl in flows.items():
        s = InTap(w, 'sink:%d' % fid, PacketSink(env))
        sinks[fid] = s
        G.nodes[fl.dst]['device'].demux.ends[fid] = s
        if tcp:
            s2 = InTap(w, 'sink:%d' % (fid + 10000), PacketSink(env))
            sinks[fid + 10000] = s2
            G.nodes[fl.src]['device'].demux.ends[fid + 10000] = s2
    npk = case.get('npk', 3)
    total = 0
    for fid, fl in flows.items():
        for key, host in ((fid, fl.src), (fid + 10000, fl.dst)):
            if key != fid and not tcp:
                continue
            wl = [(0.0 if case.get('burst') else 0.25 * j, key, 200 + 100 * (j % 3)) for j in range(npk)]
            start_injector(w, InTap(w, 'src:%d' % key, G.nodes[host]['device']), wl, src='h%s' % host)
            total += npk
    w.run(max_steps=80000)
    for r in w.log:
        if r[0] == 'ERR':
            viol.append(('C18.6/%s' % (r[4][1] if isinstance(r[4], tuple) and len(r[4]) > 1 else 'exc'),
                         'the simulated fat tree (k=%d, %s, classes %s) raised %r' % (k, server, cmap, r[4])))
            return viol, stats, False
    if not w.quiescent:
        viol.append(('C18.6/hang', 'the simulated fat tree did not run out of events'))
        return viol, stats, False
    sent = {}
    got = {}
    for r in w.log:
        if r[0] == 'IN' and r[3].startswith('src:'):
            sent.setdefault(r[5][1], []).append(r[4])
        elif r[0] == 'IN' and r[3].startswith('sink:'):
            key = int(r[3].split(':')[1])
            got.setdefault(key, []).append((r[4], r[5][1]))
    for key in keys:
        s = sent.get(key, [])
        g = got.get(key, [])
        wrong = [x for x in g if x[1] != key]
        if wrong:
            viol.append(('C18.6', 'sink of flow %r received packets of flow %r' % (key, wrong[0][1])))
        if sorted(x[0] for x in g if x[1] == key) != sorted(s):
            viol.append(('C18.6', 'flow %r: %d packets sent, %d arrived at its own sink (k=%d, %s, classes %s)' %
                         (key, len(s), len([x for x in g if x[1] == key]), k, server, cmap)))
        if key >= 10000 and g:
            stats['ack_class_delivered'] = 1
    return viol, stats, total >= 2


def run(case):
    w = NetWorld()
    sub = case.get('sub')
    try:
        if sub == 'demux':
            viol, stats, nt = run_demux(w, case)
        elif sub == 'hub':
            viol, stats, nt = run_hub(w, case)
        elif sub == 'split':
            viol, stats, nt = run_split(w, case)
        else:
            viol, stats, nt = run_fattree(w, case)
    finally:
        pass
    for r in w.log:
        if r[0] == 'ERR' and not any(v[0].startswith('C18.6') for v in viol):
            viol.append(('C18.7/%s' % (r[4][1] if isinstance(r[4], tuple) and len(r[4]) > 1 else 'exc'),
                         'the %s scenario raised %r' % (sub, r[4])))
            break
    res = {'viol': viol, 'digest': digest_of((san(case.get('sub')), w.log)), 'nontrivial': nt, 'stats': stats,
           'simtime': float(w.env.now), 'steps': getattr(w, 'steps', 0)}
    if case.get('_excerpt'):
        res['excerpt'] = [repr(r) for r in w.log[-60:]]
    return res
