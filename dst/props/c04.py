"""C04 - interrupts: once, in issue order, ahead of ordinary events (DESIGN.md C04)."""
from ..core import digest_of
from ..kprog import Prof, gen_program, setup_world, drive, excerpt
from ..tap import URGENT_KINDS
from . import c02

ID = 'C04'
TIERS = {'quick': {'runs': 24000, 'budget_s': 30}, 'thorough': {'runs': 1500000, 'budget_s': 600}}
RULE = ('interrupt-heavy generated kernel programs: victims with every handler policy (ignore, re-wait, wait for '
        'something else, return, raise, no handler), interrupters issuing at pool instants incl. the instant the '
        'victim\'s awaited event is due, created before and after the victim, interrupts of finished processes and '
        'of oneself; non-trivial = at least one interrupt delivered; distinct = history digest')
REAL = c02.REAL
STUBS = c02.STUBS
ASSUMPTIONS = ['delivery k of a victim is matched to its k-th accepted issue (causes are unique per issue)',
               'a process is "finished" for clause 5 when Process.is_alive is False at the call']
PROBES = ['resource_requests', 'interrupted_while_waiting_on_condition', 'intr_at_instant_target_due', 'ge3_pending_for_one_victim', 'victim_died_with_pending',
          'victim_rewaits_same_event', 'observed_without_probes', 'interrupt_finished_refused', 'interrupt_self_refused',
          'cowaiter_kept_outcome', 'interrupt_before_first_statement_attempt']


def gen(rng, tier):
    big = tier == 'thorough' and rng.random() < 0.3
    prof = Prof(rng)
    prof.pool = rng.choice(['GRID', 'GRID', 'INTS', 'FLOAT'])
    prof.max_procs = rng.choice([2, 3, 5, 8]) + (3 if big else 0)
    prof.max_ops = rng.choice([3, 5, 8]) + (4 if big else 0)
    prof.max_shared = rng.choice([0, 1, 2])
    w = prof.w
    w['timeout'] = rng.choice([3, 5])
    w['interrupt'] = rng.choice([3, 5, 8])
    w['wait'] = rng.choice([0, 2, 3])
    w['succeed'] = rng.choice([0, 1, 2])
    w['fail'] = rng.choice([0, 0, 1])
    w['spawn'] = rng.choice([0, 1, 2])
    w['join'] = rng.choice([0, 1, 3])
    w['ret'] = rng.choice([0, 1])
    w['raise'] = rng.choice([0, 0, 1])
    w['cond'] = rng.choice([0, 0, 1, 2])      # victims waiting on condition events
    w['request'] = rng.choice([0, 0, 2, 4])   # victims waiting for (or holding) a slot of a shared resource
    prof.depth = rng.choice([0, 1])
    prof.handlers = rng.choice([['cont', 'rewait', 'ret', 'other', 'raise', 'none'],
                                ['cont', 'rewait', 'rewait', 'other'], ['cont'], ['rewait', 'none', 'ret']])
    case = gen_program(rng, prof)
    from .c01 import _maybe_long_run
    _maybe_long_run(rng, tier, case)
    if rng.random() < 0.2 and not case.get('long_run'):
        # observed without probe callbacks: the kernel sees exactly the callback lists a production run has (a timeout
        # whose only waiter was interrupted has none); the checks then rest on what the bodies observe and on step counts
        case['noprobe'] = True
    return case


def check(log, quiescent):
    viol = []
    stats = {}
    kinds = {}
    due = {}
    issues = {}      # victim -> list of dict(G, now, cause, intr_label, st)
    deliveries = {}  # victim -> list of (G, now, cause, waited_label)
    ended = {}
    began = {}
    procP = {}       # label -> (G, st, ok, val)
    stepX = {}
    lastT = None
    Ps = []          # (G, label)
    waiting = {}
    for r in log:
        tag = r[0]
        if tag == 'T':
            kinds[r[2]] = r[3]
            due[r[2]] = r[8]
            lastT = r
        elif tag == 'P':
            Ps.append((r[1], r[2], r[3]))
            procP[r[2]] = r
        elif tag == 'X':
            stepX[r[2]] = r[3]
        elif tag == 'B':
            began[r[4]] = r[1]
        elif tag == 'E':
            ended[r[4]] = r[1]
        elif tag == 'Y':
            waiting[r[4]] = r[6]
        elif tag == 'O' and r[6] == 'interrupt':
            _, g, now, st, issuer, opi, _, victim, cause, out, alive = r
            self_ = issuer == victim
            if not alive or self_:
                if self_:
                    stats['interrupt_self_refused'] = 1
                else:
                    stats['interrupt_finished_refused'] = 1
                if out != 'RuntimeError':
                    viol.append(('C04.5', 'interrupt() of %s process %s by %s did not raise RuntimeError' %
                                 ('its own' if self_ else 'finished', victim, issuer)))
                if lastT is not None and lastT[1] == g - 1 and lastT[3] == 'intr':
                    viol.append(('C04.5', 'refused interrupt() of %s still scheduled an interruption' % victim))
            else:
                if out != 'ok':
                    viol.append(('C04.5', 'interrupt() of live process %s by %s raised %s' % (victim, issuer, out)))
                    continue
                il = lastT[2] if (lastT is not None and lastT[1] == g - 1 and lastT[3] == 'intr') else None
                if il is None:
                    viol.append(('C04.1', 'interrupt() of %s scheduled no interruption occurrence' % victim))
                elif lastT[6] != 0 or lastT[5] != 0:
                    pass  # class/delay mistakes surface through clause 2 / C01
                issues.setdefault(victim, []).append({'G': g, 'now': now, 'cause': cause, 'il': il, 'st': st})
                if victim not in began:
                    stats['interrupt_before_first_statement_attempt'] = 1
        elif tag == 'R' and r[7] == 'intr':
            _, g, now, st, pid, opi, lb, how, cause, _ = r
            deliveries.setdefault(pid, []).append((g, now, cause, lb, st))
            if lb in due and due[lb] == now and kinds.get(lb) not in ('proc',):
                stats['intr_at_instant_target_due'] = 1
    nontrivial = bool(deliveries)
    for victim in set(issues) | set(deliveries):
        I = issues.get(victim, [])
        D = deliveries.get(victim, [])
        if len(D) > len(I):
            viol.append(('C04.1', '%s received %d interrupts but only %d were issued' % (victim, len(D), len(I))))
            continue
        pend_max = 0
        for k, d in enumerate(D):
            i = I[k]
            if d[2] != i['cause']:
                viol.append(('C04.1', '%s: delivery #%d carries cause %r, issue #%d had cause %r (order/identity)' %
                             (victim, k + 1, d[2], k + 1, i['cause'])))
                break
            if d[1] != i['now']:
                viol.append(('C04.1', '%s: interrupt issued at t=%r delivered at t=%r' % (victim, i['now'], d[1])))
            if d[0] < i['G']:
                viol.append(('C04.1', '%s: interrupt delivered before it was issued' % victim))
            # clause 2: nothing ordinary in between
            for g, lb, now in Ps:
                if i['G'] < g < d[0] and kinds.get(lb) not in URGENT_KINDS:
                    viol.append(('C04.2', 'ordinary occurrence %s (%s) took effect between the interrupt of %s '
                                 '(issued t=%r) and its delivery' % (lb, kinds.get(lb), victim, i['now'])))
                    break
            pend_max = max(pend_max, sum(1 for j in I if j['G'] < d[0]) - k)
        if pend_max >= 3:
            stats['ge3_pending_for_one_victim'] = 1
        for i in I[len(D):]:
            # undelivered: legal only if the victim ended (discarded without error)
            if victim in ended:
                stats['victim_died_with_pending'] = 1
                p = procP.get(i['il'])
                if p is not None and p[4] in stepX:
                    viol.append(('C04.3', 'discarding the pending interrupt of finished %s raised %r' %
                                 (victim, stepX[p[4]])))
            elif quiescent:
                viol.append(('C04.1', 'interrupt of live process %s (cause %r, t=%r) was never delivered' %
                             (victim, i['cause'], i['now'])))
        # re-wait probe
        for k, d in enumerate(D):
            pass
    # clause 6: first statement before anything else happens to a process
    for pid, r in procP.items():
        if kinds.get(pid) == 'proc' and pid not in began:
            viol.append(('C04.6', 'process %s terminated (ok=%r value=%r) without its first statement ever running'
                         % (pid, r[5], r[6])))
    for victim, D in deliveries.items():
        if victim in began and D and D[0][0] < began[victim]:
            viol.append(('C04.6', '%s was interrupted before its first statement' % victim))
    return viol, stats, nontrivial


def unprobed(log, quiescent, w):
    """Clause 4 without per-occurrence records: the event a victim was pulled off keeps its outcome for a re-yield."""
    viol = []
    if not quiescent:
        return viol
    n_trig = sum(1 for r in log if r[0] == 'T')
    n_step = len(set(r[3] for r in log if r[0] == 'N'))
    if n_trig != n_step and not any(r[0] == 'O' and r[6] == 'tick' for r in log):
        viol.append(('C04.4', 'agenda empty after %d kernel steps although %d occurrences had been triggered (an occurrence '
                     'a victim was pulled off must still happen)' % (n_step, n_trig)))
    kinds = dict((r[2], r[3]) for r in log if r[0] == 'T')
    open_y = {}
    intr_on = set()
    for r in log:
        if r[0] == 'Y':
            open_y[r[4]] = r
        elif r[0] == 'R':
            open_y.pop(r[4], None)
            if r[7] == 'intr':
                intr_on.add(r[6])
        elif r[0] == 'E':
            open_y.pop(r[4], None)
    for pid, y in sorted(open_y.items()):
        if kinds.get(y[6]) == 'timeout' and y[6] in intr_on:
            viol.append(('C04.4', '%s yielded the timeout %s again after an interrupt had pulled a waiter off it and was '
                         'never resumed although the agenda is empty' % (pid, y[6])))
            break
    return viol


def deliveries_on_cond(log):
    conds = set(r[4] for r in log if r[0] == 'K')
    return any(r[0] == 'R' and r[7] == 'intr' and r[6] in conds for r in log)


def run(case):
    from ..core import san
    w = setup_world(case)
    env = w.env
    steps = drive(w, case.get('drive', [['run']]), max_steps=4000 + (1200000 if case.get('long_run') else 0))
    quiescent = env.peek() == float('inf') and steps < 4000 + (1200000 if case.get('long_run') else 0)
    viol, stats, nontrivial = check(env.log, quiescent)
    if case.get('noprobe'):
        stats['observed_without_probes'] = 1
        viol += unprobed(env.log, quiescent, w)
        return {'viol': viol, 'digest': digest_of(env.log), 'nontrivial': nontrivial, 'stats': stats,
                'simtime': float(env.now) - float(case.get('t0', 0)), 'steps': steps}
    # clause 4 (detachment, co-waiters keep the outcome, later re-yield) is the waiter bookkeeping of C02
    final = {}
    for pid, p in w.procs.items():
        alive = p.is_alive
        try:
            ok, val = (p.ok, san(p.value)) if not alive else (None, None)
        except AttributeError:
            ok, val = None, '<unavailable>'
        final[pid] = (alive, ok, val)
    # a queued request a victim was interrupted on stays queued: only the program itself withdraws requests
    if w.res is not None:
        stats['resource_requests'] = 1
        for pid, lb, req in w.requests:
            if not req.triggered and id(req) not in w.withdrawn and req not in w.res.queue:
                viol.append(('C04.4', 'the pending request %s of %s is no longer queued at the resource although the program '
                             'never cancelled it: it can never be granted to a later re-yield' % (lb, pid)))
                break
        if quiescent and w.res.count < w.res.capacity and w.res.queue:
            viol.append(('C04.4', 'the run ended with a free slot while request(s) %r are still queued' %
                         ([env.label(q) for q in w.res.queue],)))
    # a condition a victim was interrupted on must still fire by its operands (for its other waiters / a re-yield)
    from . import c05
    v5, s5, _nt5, ch = c05.check(env.log, case, [])
    for cl, msg in v5:
        if cl == 'C05.1':
            viol.append(('C04.4', 'condition awaited by an interrupted process: ' + msg))
    if any(r[0] == 'K' for r in env.log) and deliveries_on_cond(env.log):
        stats['interrupted_while_waiting_on_condition'] = 1
    v2, s2, _ = c02.check(env.log, c02._values(case), final, quiescent, cond_handling=ch)
    for cl, msg in v2:
        if cl in ('C02.1', 'C02.2', 'C02.3'):
            viol.append(('C04.4', msg))
    if s2.get('detached_by_interrupt') and s2.get('event_ge3_waiters'):
        stats['cowaiter_kept_outcome'] = 1
    if s2.get('detached_by_interrupt') and (s2.get('reyield_processed_ok') or s2.get('reyield_processed_failed')):
        stats['victim_rewaits_same_event'] = 1
    res = {'viol': viol, 'digest': digest_of(env.log), 'nontrivial': nontrivial, 'stats': stats,
           'simtime': float(env.now) - float(case.get('t0', 0)), 'steps': steps}
    if case.get('_excerpt'):
        res['excerpt'] = excerpt(env)
    return res
