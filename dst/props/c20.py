"""C20 - real-time pacing never runs ahead of the wall clock and alters no result (DESIGN.md C20)."""
from ..core import digest_of, san
from ..kprog import Prof, gen_program, setup_world, excerpt, HarnessAbort
from ..tap import TapEnvironment, TapRealtimeEnvironment, EmptySchedule, StopSimulation
from . import c03
import onl.sim.rt as rt_mod

ID = 'C20'
SHRINK_KEEP = ('factor', 'strict', 't0', 'tick')


def _valid_drive(rt):
    for it in rt.get('drive') or []:
        if it and it[0] == 'sync':
            continue
        if not it or it[0] not in ('until', 'burn', 'steps', 'run') or (it[0] != 'run' and (len(it) < 2 or it[1] < 0)):
            return False
    return True
TIERS = {'quick': {'runs': 12000, 'budget_s': 30}, 'thorough': {'runs': 800000, 'budget_s': 600}}
RULE = ('generated kernel programs executed on Environment (reference) and on RealtimeEnvironment(initial_time, factor, strict) '
        'under a virtual wall clock replacing onl.sim.rt.monotonic/sleep: process bodies burn wall time, sleep returns early / '
        'late / exactly, monotonic() optionally ticks per call, wall time passes before the first step, sync() is called at '
        'generated points; GRID factors and burns so that a lag of exactly `factor` occurs; non-trivial = some wall-clock '
        'fault fired (burn, early/late sleep, tick, sync); distinct = history digest')
REAL = ['onl.sim.rt.RealtimeEnvironment.step/sync', 'onl.sim.core.Environment', 'onl.sim.events.*']
STUBS = ['VirtualWallClock (monotonic/sleep seam)', 'process bodies', 'driver']
ASSUMPTIONS = ['with a ticking monotonic() the strict error is required only if the wall clock at step entry is already more '
               'than `factor` past the due instant, and forbidden only if the first clock value read inside step() is within '
               '`factor`; in between either behaviour is accepted', 'early sleeps still make progress (a sleep never returns '
               'without advancing the clock)']
PROBES = ['run_until_abandoned', 'sync_between_calls', 'stepped_again_after_too_slow', 'big_int_clock', 'until_in_idle_stretch', 'driven_by_run_until', 'burn_between_calls', 'burn', 'sleep_early', 'sleep_late', 'tick', 'sync', 'strict_error_expected', 'lag_exactly_factor', 'pre_burn',
          'nonstrict_late', 'initial_time_nonzero']


class VirtualWallClock:
    def __init__(self, t=100.0, tick=0.0, mults=(1.0,)):
        self.t = t
        self.tick = tick
        self.mults = list(mults) or [1.0]
        self.i = 0
        self.calls = 0
        self.last_returned = None
        self.fired = {}
        self.first_in_step = None

    def monotonic(self):
        self.calls += 1
        self.t += self.tick
        self.last_returned = self.t
        if self.first_in_step is None:
            self.first_in_step = self.t
        return self.t

    def sleep(self, d):
        m = self.mults[self.i % len(self.mults)]
        self.i += 1
        if m < 1:
            self.fired['sleep_early'] = 1
        elif m > 1:
            self.fired['sleep_late'] = 1
        self.t += max(d * m, 1e-6)

    def burn(self, w):
        self.fired['burn'] = 1
        self.t += w


def gen(rng, tier):
    prof = Prof(rng)
    prof.pool = rng.choice(['GRID', 'GRID', 'INTS'])
    prof.max_procs = rng.choice([2, 3, 5])
    prof.max_ops = rng.choice([3, 5, 8])
    w = prof.w
    w['wait'] = rng.choice([0, 2])
    w['succeed'] = rng.choice([0, 2])
    w['spawn'] = rng.choice([0, 1])
    w['join'] = rng.choice([0, 1])
    w['interrupt'] = rng.choice([0, 1])
    w['cond'] = rng.choice([0, 1])
    prof.handlers = ['cont', 'rewait', 'ret', 'other']
    big = rng.random() < 0.1
    if big:
        prof.pool = 'INTS'           # an integer clock far above 2**53 (nanoseconds since the epoch)
        prof.handlers = ['cont', 'rewait', 'ret']   # ('other' waits 0.5: a float added to such a clock rounds it)
    case = gen_program(rng, prof)
    factor = rng.choice([0.5, 1.0, 1.0, 2.0])
    case['t0'] = rng.choice([0, 0, 5, 10, -4, -0.5])
    if big:
        case['t0'] = rng.choice([10 ** 18, 1700000000 * 10 ** 9 + 123456789, 2 ** 60 + 1])
    burns = [0.25, 0.5, 1.0, 1.0, 2.0, 3.0, factor, factor]

    def sprinkle(ops):
        out = []
        for op in ops:
            if rng.random() < 0.2:
                out.append({'op': 'burn', 'w': rng.choice(burns)})
            if rng.random() < 0.06:
                out.append({'op': 'sync'})
            if op.get('op') == 'spawn':
                op = dict(op)
                op['ops'] = sprinkle(op.get('ops', []))
            out.append(op)
        return out
    for it in case['setup']:
        if it.get('k') == 'proc':
            it['ops'] = sprinkle(it.get('ops', []))
    case['rt'] = {'factor': factor, 'strict': rng.random() < 0.6, 'tick': rng.choice([0, 0, 0, 0.001, 0.125]),
                  'mults': [rng.choice([1.0, 1.0, 0.5, 1.5, 0.25]) for _ in range(6)],
                  'pre_burn': rng.choice([0, 0, 0, 0.5, 1.0, 3.0]), 'pre_sync': rng.random() < 0.3}
    # how the run is driven: step() by the harness, or several run(until=t) calls with wall time passing in between
    drive = []
    if rng.random() < 0.5:
        t = case['t0']
        for _ in range(rng.randint(1, 4)):
            r = rng.random()
            if r < 0.5:
                t = t + (rng.choice([1, 1, 2, 3]) if big else rng.choice([0.5, 1, 1, 2, 3]))
                drive.append(['until', t])
                if rng.random() < 0.3:
                    drive.append(['sync'])     # the caller re-bases the pacing between two calls (after an error, say)
            elif r < 0.8:
                drive.append(['burn', rng.choice(burns)])
            else:
                drive.append(['steps', rng.randint(1, 5)])
    case['rt']['drive'] = drive
    # a run(until=t) that raised ('too slow', or a failure of the program): the caller either steps on, or simply issues
    # its next call
    case['rt']['after_error'] = rng.choice(['drain', 'next', 'next'])
    if rng.random() < 1 / 300:
        # a long, regular life: several thousand periods, each costing a trifle more wall time than it is worth, so
        # that the lag creeps up by 1/4096 of a period per step until, in strict mode, it must be reported
        case['setup'] = [{'k': 'proc', 'id': 'bt', 'ops': [{'op': 'beat', 'n': rng.randint(4300, 5200), 'd': 1,
                                                             'w': 1 + 2.0 ** -12}]}]
        case['shared'] = []
        case['t0'] = 0
        case['rt'] = {'factor': 1.0, 'strict': rng.random() < 0.7, 'tick': 0, 'mults': [1.0], 'pre_burn': 0, 'pre_sync': False,
                      'drive': [], 'after_error': 'drain'}
        case['long_rt'] = True
    return case


def valid(case):
    rt = case.get('rt', {})
    return rt.get('factor', 1) > 0 and all(m > 0 for m in rt.get('mults', [1])) and rt.get('tick', 0) >= 0 and _valid_drive(rt)


def canon(log):
    out = []
    for r in log:
        if r[0] in ('W', 'S0'):
            continue
        if r[0] == 'X' and 'too slow' in repr(r[3]).lower():
            continue
        if r[0] == 'O' and len(r) > 6 and r[6] in ('sync', 'burn'):
            continue
        out.append(r)
    return c03.canon(out)


class ObservedRT(TapRealtimeEnvironment):
    """RealtimeEnvironment whose every step() is bracketed by harness observations, however it is driven
    (step() by the harness, or run()/run(until=...) by the kernel)."""

    obs = None

    def step(self):
        o = self.obs
        if o is not None:
            o.entry(self)
        try:
            super().step()
        except BaseException as e:
            if o is not None:
                o.exit(self, e)
            raise
        if o is not None:
            o.exit(self, None)


class Observer:
    def __init__(self, wall, real_start, t0, factor, strict):
        self.wall, self.real_start, self.t0, self.factor, self.strict = wall, real_start, t0, factor, strict
        self.viol, self.stats = [], {}
        self.stop = False
        self.too_slow = False
        self.steps = 0
        self.cur = None

    def entry(self, env):
        due = env.peek()
        if due == float('inf'):
            self.cur = None
            return
        self.wall.first_in_step = None
        self.cur = (due, self.wall.t, len(env.log), self.real_start + (due - self.t0) * self.factor)

    def exit(self, env, exc):
        if self.cur is None or self.stop:
            return
        due, entry, n0, due_wall = self.cur
        self.cur = None
        self.steps += 1
        wall, factor, strict = self.wall, self.factor, self.strict
        raised = exc if (isinstance(exc, RuntimeError) and 'too slow' in str(exc).lower()) else None
        first = wall.first_in_step if wall.first_in_step is not None else entry
        lag_entry = entry - due_wall
        lag_first = first - due_wall
        if lag_entry == factor or lag_first == factor:
            self.stats['lag_exactly_factor'] = 1
        if raised is not None:
            if not strict:
                self.viol.append(('C20.3', 'non-strict RealtimeEnvironment raised %r' % (raised,)))
            elif not (lag_first > factor):
                self.viol.append(('C20.3', 'strict step raised "too slow" although the wall clock (%r at the first read) was '
                                  'only %r past the due instant %r of the next occurrence (factor %r)' %
                                  (first, lag_first, due_wall, factor)))
            else:
                self.stats['strict_error_expected'] = 1
            self.too_slow = True
            # the occurrence was not processed: the caller may catch the error and step again, and as long as the wall
            # clock is still too far ahead every further step must raise again (observed up to three times)
            self.raises = getattr(self, 'raises', 0) + 1
            if self.raises >= 2:
                self.stats['stepped_again_after_too_slow'] = 1
            if self.raises >= 3 or self.viol:
                self.stop = True
            return
        if strict and lag_entry > factor:
            self.viol.append(('C20.3', 'strict step did not raise although the wall clock at step entry (%r) was already %r '
                              'past the due instant %r of the next occurrence (more than factor %r)' %
                              (entry, lag_entry, due_wall, factor)))
            self.stop = True
            return
        if not strict and lag_entry > factor:
            self.stats['nonstrict_late'] = 1
        for r in env.log[n0:]:
            if r[0] == 'W':
                if r[3] < due_wall - 1e-9 * max(1.0, abs(due_wall)):
                    self.viol.append(('C20.2', 'occurrence %s due at simulated t=%r was processed at wall time %r, before '
                                      'real_start %r + (t - %r) * %r = %r' %
                                      (r[2], r[4], r[3], self.real_start, self.t0, factor, due_wall)))
                    self.stop = True
                    break
            elif r[0] == 'O' and len(r) > 6 and r[6] == 'sync':
                self.real_start = wall.last_returned if wall.last_returned is not None else wall.t
                self.stats['sync'] = 1


def run(case):
    rt = case.get('rt', {})
    factor = rt.get('factor', 1.0)
    strict = rt.get('strict', True)
    # reference: plain Environment, step loop
    ref = setup_world(case)
    cap = 16000 if case.get('long_rt') else 4000
    n = 0
    while n < cap:
        try:
            ref.env.step()
        except EmptySchedule:
            break
        except StopSimulation:
            pass
        except (Exception, HarnessAbort):
            pass
        n += 1
    ref_canon = canon(ref.env.log)
    wall = VirtualWallClock(100.0, rt.get('tick', 0.0), rt.get('mults', [1.0]))
    saved = (rt_mod.monotonic, rt_mod.sleep)
    rt_mod.monotonic, rt_mod.sleep = wall.monotonic, wall.sleep
    viol, stats = [], {}
    try:
        t0 = case.get('t0', 0)
        env = ObservedRT(t0, factor, strict)
        env.wallclock = wall
        real_start = wall.last_returned if wall.last_returned is not None else wall.t
        w = setup_world(case, env)
        w.wall = wall
        if rt.get('pre_burn'):
            wall.burn(rt['pre_burn'])
            stats['pre_burn'] = 1
        if rt.get('pre_sync'):
            env.sync()
            real_start = wall.last_returned
            stats['sync'] = 1
        if t0:
            stats['initial_time_nonzero'] = 1
        if isinstance(t0, int) and t0 > 2 ** 53:
            stats['big_int_clock'] = 1
        obs = Observer(wall, real_start, t0, factor, strict)
        env.obs = obs
        plan = list(rt.get('drive') or []) + [['run']]
        for it in plan:
            if obs.stop or obs.steps >= cap:
                break
            if it[0] == 'burn':
                wall.burn(it[1])          # wall time passing between two calls of the driver
                stats['burn_between_calls'] = 1
            elif it[0] == 'sync':
                env.sync()
                obs.real_start = wall.last_returned if wall.last_returned is not None else wall.t
                stats['sync_between_calls'] = 1
            elif it[0] == 'until':
                if it[1] <= env.now:
                    continue
                stats['driven_by_run_until'] = 1
                done = False
                try:
                    env.run(until=it[1])
                    done = True
                    if env.now != it[1]:
                        viol.append(('C20.1', 'run(until=%r) returned with now=%r (a plain Environment stops exactly at the '
                                     'requested instant)' % (it[1], env.now)))
                        break
                    # the stop at it[1] is itself an occurrence due at that instant: the call may not return (with
                    # now == it[1]) before the wall clock has reached that instant's due time
                    due_wall = obs.real_start + (it[1] - t0) * factor
                    if env.now == it[1] and wall.t < due_wall - 1e-9 * max(1.0, abs(due_wall)) and not obs.stop:
                        viol.append(('C20.2', 'run(until=%r) returned with now=%r at wall time %r, before real_start %r + '
                                     '(t - %r) * %r = %r' % (it[1], env.now, wall.t, obs.real_start, t0, factor, due_wall)))
                        break
                    if env.peek() > it[1]:
                        stats['until_in_idle_stretch'] = 1
                except (Exception, HarnessAbort):
                    stats['run_until_abandoned'] = 1
                    if rt.get('after_error') == 'next':
                        done = True
                while not done and not obs.stop and obs.steps < cap:
                    # an exception escaped run(until): go on stepping until its stop event ends the call
                    try:
                        env.step()
                    except (EmptySchedule, StopSimulation):
                        break
                    except (Exception, HarnessAbort):
                        pass
            else:
                k = it[1] if it[0] == 'steps' else 1 << 30
                while k > 0 and not obs.stop and obs.steps < cap:
                    k -= 1
                    try:
                        env.step()
                    except EmptySchedule:
                        k = 0
                    except StopSimulation:
                        pass
                    except (Exception, HarnessAbort):
                        pass
        viol += obs.viol
        stats.update(obs.stats)
        steps = obs.steps
        if wall.tick:
            stats['tick'] = 1
        stats.update(wall.fired)
        got = canon(env.log)
        if not viol:
            if obs.too_slow:
                if got != ref_canon[:len(got)]:
                    d = c03.first_diff(ref_canon[:len(got)], got)
                    viol.append(('C20.1', 'real-time execution diverges from Environment at canonical record %r: %r vs %r' % d))
            else:
                d = c03.first_diff(ref_canon, got)
                if d is not None:
                    viol.append(('C20.1', 'real-time execution diverges from Environment at canonical record %r: Environment %r, '
                                 'RealtimeEnvironment %r' % d))
    finally:
        rt_mod.monotonic, rt_mod.sleep = saved
    nontrivial = any(stats.get(k) for k in ('burn', 'sleep_early', 'sleep_late', 'tick', 'sync', 'pre_burn', 'burn_between_calls'))
    res = {'viol': viol, 'digest': digest_of((env.log, san(rt))), 'nontrivial': nontrivial, 'stats': stats,
           'simtime': float(env.now) - float(case.get('t0', 0)), 'steps': steps + n}
    if case.get('_excerpt'):
        res['excerpt'] = excerpt(env)
    return res
