"""C20 - real-time pacing never runs ahead of the wall clock and alters no result (DESIGN.md C20)."""
from ..core import digest_of, san
from ..kprog import Prof, gen_program, setup_world, excerpt
from ..tap import TapEnvironment, TapRealtimeEnvironment, EmptySchedule, StopSimulation
from . import c03
import onl.sim.rt as rt_mod

ID = 'C20'
SHRINK_KEEP = ('factor', 'strict', 't0', 'tick')
TIERS = {'quick': {'runs': 12000, 'budget_s': 30}, 'thorough': {'runs': 800000, 'budget_s': 600}}
RULE = ('generated kernel programs executed on Environment (reference) and on RealtimeEnvironment(initial_time, factor, strict) '
        'under a virtual wall clock replacing onl.sim.rt.monotonic/sleep: process bodies burn wall time, sleep returns early / '
        'late / exactly, monotonic() optionally ticks per call, wall time passes before the first step, sync() is called at '
        'generated points; GRID factors and burns so that a lag of exactly `factor` occurs; non-trivial = some wall-clock '
        'fault fired (burn, early/late sleep, tick, sync); distinct = history digest')
REAL = ['onl.sim.rt.RealtimeEnvironment.step/sync', 'onl.sim.core.Environment', 'onl.sim.events.*']
STUBS = ['VirtualWallClock (monotonic/sleep seam)', 'process bodies', 'driver']
ASSUMPTIONS = ['with a ticking monotonic() the strict error is required only if the wall clock at step entry is already more '
               'than `factor` past the due instant, and forbidden only if the first clock value read inside step() is within '
               '`factor`; in between either behaviour is accepted', 'early sleeps still make progress (a sleep never returns '
               'without advancing the clock)']
PROBES = ['burn', 'sleep_early', 'sleep_late', 'tick', 'sync', 'strict_error_expected', 'lag_exactly_factor', 'pre_burn',
          'nonstrict_late', 'initial_time_nonzero']


class VirtualWallClock:
    def __init__(self, t=100.0, tick=0.0, mults=(1.0,)):
        self.t = t
        self.tick = tick
        self.mults = list(mults) or [1.0]
        self.i = 0
        self.calls = 0
        self.last_returned = None
        self.fired = {}
        self.first_in_step = None

    def monotonic(self):
        self.calls += 1
        self.t += self.tick
        self.last_returned = self.t
        if self.first_in_step is None:
            self.first_in_step = self.t
        return self.t

    def sleep(self, d):
        m = self.mults[self.i % len(self.mults)]
        self.i += 1
        if m < 1:
            self.fired['sleep_early'] = 1
        elif m > 1:
            self.fired['sleep_late'] = 1
        self.t += max(d * m, 1e-6)

    def burn(self, w):
        self.fired['burn'] = 1
        self.t += w


def gen(rng, tier):
    prof = Prof(rng)
    prof.pool = rng.choice(['GRID', 'GRID', 'INTS'])
    prof.max_procs = rng.choice([2, 3, 5])
    prof.max_ops = rng.choice([3, 5, 8])
    w = prof.w
    w['wait'] = rng.choice([0, 2])
    w['succeed'] = rng.choice([0, 2])
    w['spawn'] = rng.choice([0, 1])
    w['join'] = rng.choice([0, 1])
    w['interrupt'] = rng.choice([0, 1])
    w['cond'] = rng.choice([0, 1])
    prof.handlers = ['cont', 'rewait', 'ret', 'other']
    case = gen_program(rng, prof)
    factor = rng.choice([0.5, 1.0, 1.0, 2.0])
    case['t0'] = rng.choice([0, 0, 5, 10])
    burns = [0.25, 0.5, 1.0, 1.0, 2.0, 3.0, factor, factor]

    def sprinkle(ops):
        out = []
        for op in ops:
            if rng.random() < 0.2:
                out.append({'op': 'burn', 'w': rng.choice(burns)})
            if rng.random() < 0.06:
                out.append({'op': 'sync'})
            if op.get('op') == 'spawn':
                op = dict(op)
                op['ops'] = sprinkle(op.get('ops', []))
            out.append(op)
        return out
    for it in case['setup']:
        if it.get('k') == 'proc':
            it['ops'] = sprinkle(it.get('ops', []))
    case['rt'] = {'factor': factor, 'strict': rng.random() < 0.6, 'tick': rng.choice([0, 0, 0, 0.001, 0.125]),
                  'mults': [rng.choice([1.0, 1.0, 0.5, 1.5, 0.25]) for _ in range(6)],
                  'pre_burn': rng.choice([0, 0, 0, 0.5, 1.0, 3.0]), 'pre_sync': rng.random() < 0.3}
    return case


def valid(case):
    rt = case.get('rt', {})
    return rt.get('factor', 1) > 0 and all(m > 0 for m in rt.get('mults', [1])) and rt.get('tick', 0) >= 0


def canon(log):
    out = []
    for r in log:
        if r[0] in ('W', 'S0'):
            continue
        if r[0] == 'X' and 'too slow' in repr(r[3]).lower():
            continue
        if r[0] == 'O' and len(r) > 6 and r[6] in ('sync', 'burn'):
            continue
        out.append(r)
    return c03.canon(out)


def run(case):
    rt = case.get('rt', {})
    factor = rt.get('factor', 1.0)
    strict = rt.get('strict', True)
    # reference: plain Environment, step loop
    ref = setup_world(case)
    n = 0
    while n < 4000:
        try:
            ref.env.step()
        except EmptySchedule:
            break
        except StopSimulation:
            pass
        except Exception:
            pass
        n += 1
    ref_canon = canon(ref.env.log)
    # real-time execution under the virtual wall clock
    wall = VirtualWallClock(100.0, rt.get('tick', 0.0), rt.get('mults', [1.0]))
    saved = (rt_mod.monotonic, rt_mod.sleep)
    rt_mod.monotonic, rt_mod.sleep = wall.monotonic, wall.sleep
    viol, stats = [], {}
    try:
        env = TapRealtimeEnvironment(case.get('t0', 0), factor, strict)
        env.wallclock = wall
        real_start = wall.last_returned
        if real_start is None:
            real_start = wall.t
        w = setup_world(case, env)
        w.wall = wall
        if rt.get('pre_burn'):
            wall.burn(rt['pre_burn'])
            stats['pre_burn'] = 1
        if rt.get('pre_sync'):
            env.sync()
            real_start = wall.last_returned
            stats['sync'] = 1
        t0 = case.get('t0', 0)
        if t0:
            stats['initial_time_nonzero'] = 1
        steps = 0
        stopped_by_error = False
        while steps < 4000:
            due = env.peek()
            if due == float('inf'):
                break
            # a sync() inside the previous step re-based the reference start
            entry = wall.t
            wall.first_in_step = None
            due_wall = real_start + (due - t0) * factor
            n0 = len(env.log)
            try:
                env.step()
                raised = None
            except EmptySchedule:
                break
            except StopSimulation:
                raised = None
            except RuntimeError as e:
                raised = e if 'too slow' in str(e).lower() else None
            except Exception:
                raised = None
            steps += 1
            first = wall.first_in_step if wall.first_in_step is not None else entry
            lag_entry = entry - due_wall
            lag_first = first - due_wall
            if lag_entry == factor or lag_first == factor:
                stats['lag_exactly_factor'] = 1
            if raised is not None:
                if not strict:
                    viol.append(('C20.3', 'non-strict RealtimeEnvironment raised %r' % (raised,)))
                elif not (lag_first > factor):
                    viol.append(('C20.3', 'strict step raised "too slow" although the wall clock (%r at the first read) was only '
                                 '%r past the due instant %r of the next occurrence (factor %r)' % (first, lag_first, due_wall, factor)))
                else:
                    stats['strict_error_expected'] = 1
                stopped_by_error = True
                break
            else:
                if strict and lag_entry > factor:
                    viol.append(('C20.3', 'strict step did not raise although the wall clock at step entry (%r) was already %r '
                                 'past the due instant %r of the next occurrence (more than factor %r)' %
                                 (entry, lag_entry, due_wall, factor)))
                    break
                if not strict and lag_entry > factor:
                    stats['nonstrict_late'] = 1
                # never ahead of the wall clock
                for r in env.log[n0:]:
                    if r[0] == 'W':
                        if r[3] < due_wall - 1e-9 * max(1.0, abs(due_wall)):
                            viol.append(('C20.2', 'occurrence %s due at simulated t=%r was processed at wall time %r, before '
                                         'real_start %r + (t - %r) * %r = %r' % (r[2], r[4], r[3], real_start, t0, factor, due_wall)))
                            break
                    elif r[0] == 'O' and len(r) > 6 and r[6] == 'sync':
                        real_start = wall.last_returned if wall.last_returned is not None else wall.t
                        stats['sync'] = 1
            if viol:
                break
        if wall.tick:
            stats['tick'] = 1
        stats.update(wall.fired)
        # same event sequence with the same values (up to the strict error)
        got = canon(env.log)
        if not viol:
            if stopped_by_error:
                cmp_ref = ref_canon[:len(got)]
                # the last step did not run: compare only what was executed
                if got != cmp_ref[:len(got)]:
                    d = c03.first_diff(cmp_ref, got)
                    viol.append(('C20.1', 'real-time execution diverges from Environment at canonical record %r: %r vs %r' % d))
            else:
                d = c03.first_diff(ref_canon, got)
                if d is not None:
                    viol.append(('C20.1', 'real-time execution diverges from Environment at canonical record %r: Environment %r, '
                                 'RealtimeEnvironment %r' % d))
    finally:
        rt_mod.monotonic, rt_mod.sleep = saved
    nontrivial = any(stats.get(k) for k in ('burn', 'sleep_early', 'sleep_late', 'tick', 'sync', 'pre_burn'))
    res = {'viol': viol, 'digest': digest_of((env.log, san(rt))), 'nontrivial': nontrivial, 'stats': stats,
           'simtime': float(env.now) - float(case.get('t0', 0)), 'steps': steps + n}
    if case.get('_excerpt'):
        res['excerpt'] = excerpt(env)
    return res
