"""Import the code under test from VERIF_REPO (default /repo), never from anywhere else."""
import os
import subprocess
import sys

REPO = os.path.realpath(os.environ.get('VERIF_REPO', '/repo'))
sys.dont_write_bytecode = True

_loaded = False


def load():
    """Put REPO first on sys.path, import onl from it and make sure that is what we got."""
    global _loaded
    if _loaded:
        return
    if 'onl' in sys.modules:
        f = os.path.realpath(sys.modules['onl'].__file__)
        if not f.startswith(REPO + os.sep):
            raise RuntimeError('onl already imported from %s, not from %s' % (f, REPO))
    sys.path.insert(0, REPO)
    import onl  # noqa: F401
    f = os.path.realpath(onl.__file__)
    if not f.startswith(REPO + os.sep):
        raise RuntimeError('onl imported from %s, not from %s' % (f, REPO))
    _loaded = True


def revision():
    try:
        head = subprocess.run(['git', '-C', REPO, 'rev-parse', 'HEAD'], capture_output=True,
                              text=True, timeout=20).stdout.strip()
        dirty = subprocess.run(['git', '-C', REPO, 'status', '--porcelain', '--', 'onl'],
                               capture_output=True, text=True, timeout=20).stdout.strip()
        return {'path': REPO, 'head': head, 'dirty': bool(dirty)}
    except Exception as e:  # pragma: no cover
        return {'path': REPO, 'head': 'unknown', 'dirty': None, 'error': repr(e)}


def is_repo_frame(filename):
    try:
        return os.path.realpath(filename).startswith(REPO + os.sep)
    except Exception:
        return False
