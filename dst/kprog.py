"""Engine K: generated kernel programs interpreted on the real kernel (serves C01-C05, C03, C20).

A program is plain data (see gen_program). Every process body is the single generator `body()` below,
which logs immediately before every yield and immediately after every resumption.

Log records (tuples; G = global action number, st = kernel step number):
  ('T', G, label, kind, now, delay, prio, st|None)   occurrence triggered (from TapEnvironment.schedule)
  ('P', G, label, now, st)                           occurrence processed (probe = first callback)
  ('X', G, st, exc)                                  step() raised
  ('B', G, now, st, pid)                             body started
  ('Y', G, now, st, pid, opi, label, processed)      about to yield
  ('R', G, now, st, pid, opi, label, how, data, same) resumed: how in ok|intr|exc
  ('E', G, now, st, pid, how, data)                  body ended: ret|raise
  ('O', G, now, st, pid, opi, what, ...)             other operation and its outcome
  ('C', G, now, st, cbid, label, ok, value)          plain callback invoked
  ('D', G, now, what, ...)                           driver action
"""
from .core import san
from .tap import TapEnvironment, EmptySchedule, StopSimulation, Event
from onl.sim import Interrupt
from onl.sim.events import Timeout as _Timeout, Process as _Process, AllOf as _AllOf, AnyOf as _AnyOf, Condition as _Condition

class HarnessAbort(BaseException):
    """A user exception that derives directly from BaseException (legal for Event.fail and for process bodies)."""


class PacketError(Exception):
    """An application exception with a constructor of its own (as json.JSONDecodeError or most library exceptions have):
    it cannot be rebuilt as type(e)(*e.args)."""

    def __init__(self, pkt, reason):
        super().__init__('packet %r: %s' % (pkt, reason))
        self.pkt, self.reason = pkt, reason


class LinkDown(Exception):
    """An application exception whose constructor formats its message: type(e)(*e.args) succeeds but yields other args."""

    def __init__(self, port):
        super().__init__('link down on port %s' % (port,))


class PortDown(LinkDown):
    """A subclass that only inherits such a constructor (most exception hierarchies of applications look like this)."""


class Congested(PacketError):
    pass


EXC = {'PortDown': PortDown, 'Congested': Congested, 'LinkDown': LinkDown, 'HarnessAbort': HarnessAbort, 'ValueError': ValueError, 'KeyError': KeyError, 'RuntimeError': RuntimeError,
       'ZeroDivisionError': ZeroDivisionError, 'IndexError': IndexError, 'OSError': OSError, 'PacketError': PacketError}

GRID = [0, 0, 0.25, 0.5, 0.5, 1, 1, 1, 1.5, 2, 2, 3]
INTS = [0, 0, 1, 1, 1, 2, 2, 3, 5]
FLOAT = [0.1, 0.2, 0.3, 0.7, 0.1, 1.1, 0.25, 2.675, 1e-3, 0.30000000000000004]
NASTY = [2.0 ** -52, 1.0 - 2.0 ** -53, 1.0 + 2.0 ** -52, 0.1 + 0.2, 1e-9, 3.0000000000000004, 1e16, 0.5,
         1.9999999999999998]
POOLS = {'GRID': GRID, 'INTS': INTS, 'FLOAT': FLOAT, 'NASTY': NASTY}
HANDLERS = ['none', 'cont', 'rewait', 'ret', 'raise', 'other']


# the kernel's own control-flow signals are exception classes like any other: a process may raise them (a nested
# environment stepped by a process runs dry; a library that re-exports StopSimulation) - used only by cases that ask
EXC_CTL = {'StopSimulation': StopSimulation, 'EmptySchedule': EmptySchedule}


def rv(v):
    """Realise a value of a case: '!exc:<class>:<n>' stands for an exception *object* used as an ordinary value (a caught
    error handed on as a result, an exception stored as an item) - it must travel like any other value."""
    if isinstance(v, str) and v.startswith('!exc:'):
        _, name, n = v.split(':')
        return EXC.get(name, ValueError)(int(n))
    return v


def mkexc(spec):
    if spec[0] in ('LinkDown', 'PortDown'):
        return EXC[spec[0]](spec[1][0] if spec[1] else 0)
    if spec[0] in ('PacketError', 'Congested'):
        return EXC[spec[0]](spec[1][0] if spec[1] else 0, 'lost')
    if spec[0] in EXC_CTL:
        return EXC_CTL[spec[0]](*spec[1])
    return EXC.get(spec[0], ValueError)(*spec[1])


# --------------------------------------------------------------------------- generation

class Prof:
    """Swarm profile: which op kinds are enabled in this run and how large the program is."""

    def __init__(self, rng, **kw):
        self.max_procs = 6
        self.max_ops = 8
        self.max_shared = 3
        self.w = {'timeout': 6, 'wait': 2, 'succeed': 2, 'fail': 0, 'spawn': 1, 'join': 1,
                  'interrupt': 0, 'cond': 0, 'ret': 1, 'raise': 0, 'negtimeout': 0, 'addcb': 0, 'fire': 0, 'subwait': 0, 'newenv': 0}
        self.handlers = ['cont', 'cont', 'rewait', 'ret', 'other']
        self.pool = 'GRID'
        self.top_timeouts = 2
        self.top_cbs = 1
        self.depth = 2
        self.__dict__.update(kw)


def gen_tree(rng, prof, ctx, depth):
    pool = POOLS[prof.pool]
    if depth <= 0 or rng.random() < 0.45:
        r = rng.random()
        if getattr(prof, 'foreign', 0) and rng.random() < prof.foreign:
            return {'leaf': 'foreign'}
        if ctx.get('prev') and rng.random() < 0.3:
            return {'leaf': 'label', 'lb': rng.choice(ctx['prev'])}
        if prof.w.get('subwait') and ctx.get('nested') and rng.random() < 0.15:
            # a nested condition of an earlier tree is an operand of this tree as well (a second parent)
            return {'leaf': 'label', 'lb': rng.choice(ctx['nested'])}
        if r < 0.55 or not (ctx['shared'] or ctx['procs']):
            return {'leaf': 'timeout', 'd': rng.choice(pool), 'v': ctx['val']()}
        if r < 0.8 and ctx['shared']:
            return {'leaf': 'shared', 'ev': rng.choice(ctx['shared'])}
        if ctx['procs']:
            return {'leaf': 'proc', 'p': rng.choice(ctx['procs'])}
        return {'leaf': 'timeout', 'd': rng.choice(pool), 'v': ctx['val']()}
    t = rng.choice(['all', 'any', 'and', 'or', 'all', 'any'])
    if t in ('and', 'or'):
        n = 2
    else:
        n = rng.choice([0, 1, 2, 2, 3, 3, 4])
    return {'t': t, 'kids': [gen_tree(rng, prof, ctx, depth - 1) for _ in range(n)]}


FALSY = [0, '', False, 0.0, None]


def gen_ops(rng, prof, ctx, pid, depth):
    pool = POOLS[prof.pool]

    def pv():
        # mostly unique values (every outcome attributable to one trigger), sometimes falsy ones
        if rng.random() < 0.15:
            return rng.choice(FALSY)
        if rng.random() < 0.04:
            return '!exc:%s:%d' % (rng.choice(['KeyError', 'ValueError', 'LinkDown', 'HarnessAbort']), ctx['val']())
        return ctx['val']()
    ops = []
    n = rng.randint(1, prof.max_ops)
    kinds = [k for k, w in prof.w.items() for _ in range(w)]
    saved_prev = ctx.get('prev')
    ctx['prev'] = []
    for _ in range(n):
        k = rng.choice(kinds)
        h = rng.choice(prof.handlers)
        if k == 'timeout':
            op = {'op': 'timeout', 'd': rng.choice(pool), 'v': pv(), 'h': h}
        elif k == 'wait':
            if not ctx['shared']:
                continue
            op = {'op': 'wait', 'ev': rng.choice(ctx['shared']), 'h': h}
        elif k == 'succeed':
            if not ctx['shared']:
                continue
            op = {'op': 'succeed', 'ev': rng.choice(ctx['shared']), 'v': pv()}
        elif k == 'fail':
            if not ctx['shared']:
                continue
            op = {'op': 'fail', 'ev': rng.choice(ctx['shared']),
                  'exc': [rng.choice(sorted(EXC)), [ctx['val']() for _ in range(rng.randint(0, 2))]]}
        elif k == 'spawn':
            if depth <= 0:
                continue
            cid = '%s.c%d' % (pid, len(ops))
            ctx['procs'].append(cid)
            op = {'op': 'spawn', 'id': cid, 'ops': gen_ops(rng, prof, ctx, cid, depth - 1)}
        elif k == 'join':
            cands = [p for p in ctx['procs'] if p != pid]
            if not cands:
                continue
            op = {'op': 'join', 'p': rng.choice(cands), 'h': h}
        elif k == 'interrupt':
            if not ctx['procs']:
                continue
            op = {'op': 'interrupt', 'p': rng.choice(ctx['procs']),
                  'cause': rng.choice([0, '', False, None]) if rng.random() < 0.1 else ctx['val']()}
        elif k == 'cond':
            op = {'op': 'cond', 'tree': gen_tree(rng, prof, ctx, prof.depth + 1), 'h': h}
            if 'leaf' in op['tree']:
                op['tree'] = {'t': rng.choice(['all', 'any']), 'kids': [op['tree']]}
            def nested(node, lb, top=True):
                if 'leaf' in node:
                    return
                if not top:
                    ctx.setdefault('nested', []).append(lb)
                for j, kid in enumerate(node.get('kids', [])):
                    nested(kid, '%s/%d' % (lb, j), False)
            nested(op['tree'], '%s.%d' % (pid, len(ops)))
        elif k == 'subwait':
            # somebody also holds a nested condition of a tree and waits for it (or for it again) on its own
            if not ctx.get('nested'):
                continue
            op = {'op': 'waitl', 'lb': rng.choice(ctx['nested']), 'h': h}
        elif k == 'ret':
            if rng.random() < 0.5:
                continue
            op = {'op': 'ret', 'v': pv()}
        elif k == 'raise':
            if rng.random() < 0.5:
                continue
            op = {'op': 'raise', 'exc': [rng.choice(sorted(EXC)), [ctx['val']()]]}
        elif k == 'request':
            # a slot of the shared resource: the awaited event is a queued request; later ops run while holding it
            op = {'op': 'request', 'h': h} if rng.random() < 0.65 else {'op': 'release'}
        elif k == 'negtimeout':
            op = {'op': 'negtimeout', 'd': -rng.choice([1, 0.5, 2.0 ** -52, 1e-9, 3])}
        elif k == 'newenv':
            # a what-if simulation inside the simulation: a second Environment is created (and run) while this one
            # has occurrences pending
            op = {'op': 'newenv', 'n': rng.choice([0, 1, 3])}
        elif k == 'fire':
            op = {'op': 'fire', 'd': rng.choice(pool), 'v': ctx['val'](), 'cb': 'f%d' % ctx['val']()}
        elif k == 'addcb' and len(ctx['shared']) >= 2 and rng.random() < 0.3:
            # event chaining: `dst.trigger` registered as a callback of src hands src's outcome on to dst
            a, b = rng.sample(ctx['shared'], 2)
            op = {'op': 'chain', 'src': a, 'dst': b}
        elif k == 'addcb':
            if not ctx['shared']:
                continue
            op = {'op': 'addcb', 'ev': rng.choice(ctx['shared']), 'id': 'cb%d' % ctx['val'](),
                  'defuse': rng.random() < 0.5}
        else:
            continue
        ops.append(op)
        if op['op'] in ('timeout', 'fire'):
            ctx['prev'].append('%s.%d' % (pid, len(ops) - 1))
        if op['op'] in ('ret', 'raise'):
            break
    ctx['prev'] = saved_prev
    return ops


def gen_program(rng, prof):
    pool = POOLS[prof.pool]
    counter = [0]

    def val():
        counter[0] += 1
        return counter[0]

    nsh = rng.randint(0, prof.max_shared)
    shared = ['s%d' % i for i in range(nsh)]
    nprocs = rng.randint(1, prof.max_procs)
    pids = ['p%d' % i for i in range(nprocs)]
    ctx = {'shared': shared, 'procs': list(pids), 'val': val}
    setup = []
    for pid in pids:
        setup.append({'k': 'proc', 'id': pid, 'ops': gen_ops(rng, prof, ctx, pid, prof.depth)})
    for i in range(rng.randint(0, prof.top_timeouts)):
        setup.append({'k': 'timeout', 'id': 't%d' % i, 'd': rng.choice(pool), 'v': val(),
                      'cb': 'tcb%d' % i})
    for i in range(rng.randint(0, prof.top_cbs)):
        if shared:
            setup.append({'k': 'cb', 'id': 'c%d' % i, 'ev': rng.choice(shared),
                          'defuse': rng.random() < 0.5})
    rng.shuffle(setup)
    return {'engine': 'K', 't0': rng.choice([0, 0, 0, 1, 0.5, 10, -3, -0.25, 2.0 ** 40, 7200.0]), 'shared': shared, 'setup': setup,
            'drive': [['run']], 'doors': rng.choice(['cls', 'cls', 'iter']) if rng.random() < 0.3 else 'env'}


# --------------------------------------------------------------------------- interpretation

class World:
    def __init__(self, env):
        self.env = env
        self.procs = {}
        self.shared = {}
        self.named = {}
        self.cond_nodes = []   # (label, type, [kid labels], is_leaf)
        self.cbs = {}
        self.cvs = []
        self.proc_ids = {}
        self.res = None         # one shared Resource(capacity 1) for the 'request' / 'release' ops
        self.requests = []      # (pid, label, request)
        self.withdrawn = set()  # ids of requests the program itself cancelled

    def rec(self, tag, *rest):
        env = self.env
        env.log.append((tag, env.tick(), env.now, env.step_no if env.in_step else None) + rest)

    # plain callbacks ---------------------------------------------------------------------------
    # the same objects through the other public door: the classes themselves instead of the Environment's factories
    doors = 'env'

    def mk_timeout(self, d, v=None):
        v = rv(v)
        if self.doors == 'cls':
            return _Timeout(self.env, d, v)
        return self.env.timeout(d, v)

    def mk_event(self):
        if self.doors == 'cls':
            return Event(self.env)
        return self.env.event()

    def mk_process(self, gen):
        if self.doors == 'cls':
            return _Process(self.env, gen)
        return self.env.process(gen)

    def mk_all(self, kids):
        if self.doors == 'iter':
            return self.env.all_of(k for k in kids)      # a one-shot iterable instead of a list
        if self.doors == 'cls':
            return _AllOf(self.env, kids) if len(kids) % 2 else _Condition(self.env, _Condition.all_events, kids)
        return self.env.all_of(kids)

    def mk_any(self, kids):
        if self.doors == 'iter':
            return self.env.any_of(iter(kids))
        if self.doors == 'cls':
            return _AnyOf(self.env, kids) if len(kids) % 2 else _Condition(self.env, _Condition.any_events, kids)
        return self.env.any_of(kids)

    def make_cb(self, cbid, defuse):
        def cb(event, self=self, cbid=cbid, defuse=defuse):
            ok = getattr(event, '_ok', None)
            self.rec('C', cbid, self.env.label(event), ok, san(getattr(event, '_value', None)))
            if defuse and ok is False:
                event.defused = True
            elif ok is False and cbid.endswith(('1', '3', '5', '7', '9')):
                # a callback that declines to handle the failure and says so (the flag keeps whatever others decided)
                event.defused = bool(event.defused)
        cb.cbid = cbid
        return cb

    def add_cb(self, ev, cbid, defuse, by):
        if ev.callbacks is None:
            self.rec('O', by, None, 'addcb', self.env.label(ev), cbid, 'already-processed')
            return
        ev.callbacks.append(self.make_cb(cbid, defuse))
        self.rec('O', by, None, 'addcb', self.env.label(ev), cbid, 'defuse' if defuse else 'plain')

    # condition trees ---------------------------------------------------------------------------
    def foreign_event(self):
        from onl.sim import Environment as _E
        if not hasattr(self, '_foreign_env'):
            self._foreign_env = _E()
        return self._foreign_env.event()

    def build_tree(self, node, label, pid):
        env = self.env
        if 'leaf' in node:
            k = node['leaf']
            if k == 'timeout':
                ev = self.mk_timeout(node['d'], node.get('v'))
                env.name(ev, label)
                lb = env.label(ev)
            elif k == 'shared':
                ev = self.shared.get(node['ev'])
                if ev is None:
                    return None
                lb = env.label(ev)
            elif k == 'proc':
                ev = self.procs.get(node['p'])
                if ev is None or node['p'] == pid:
                    return None
                lb = env.label(ev)
            elif k == 'label':
                ev = env.by_label.get(node['lb'])
                if ev is None:
                    return None
                lb = node['lb']
            elif k == 'foreign':
                ev = self.foreign_event()
                lb = 'foreign'
                return ev, ('leaf', lb)
            else:
                return None
            self.cond_nodes.append((label, 'leaf', lb, ev.callbacks is None))
            return ev, ('leaf', lb)
        kids = []
        shapes = []
        for j, kid in enumerate(node.get('kids', [])):
            r = self.build_tree(kid, '%s/%d' % (label, j), pid)
            if r is None:
                continue
            kids.append(r[0])
            shapes.append(r[1])
        t = node['t']
        pre = [k.callbacks is None for k in kids]
        if t in ('and', 'or') and len(kids) != 2:
            t = 'all' if t == 'and' else 'any'
        envs = set(id(k.env) for k in kids)
        home = id(env) if t in ('all', 'any') or not kids else id(kids[0].env)
        mixed = len(envs | {home}) > 1
        if not mixed and kids and home != id(env):
            return None                      # a purely foreign condition: nothing to do with this world
        self.rec('K0', label)
        try:
            if t == 'all':
                ev = self.mk_all(kids)
            elif t == 'any':
                ev = self.mk_any(kids)
            elif t == 'and':
                ev = kids[0] & kids[1]
            else:
                ev = kids[0] | kids[1]
        except ValueError:
            self.rec('O', pid, None, 'cond-mixed', label, 'ValueError' if mixed else 'unexpected-ValueError')
            raise
        if mixed:
            self.rec('O', pid, None, 'cond-mixed', label, 'accepted')
            return None
        env.name(ev, label)
        mode = 'all' if t in ('all', 'and') else 'any'
        self.rec('K', label, mode, tuple(s[1] if s[0] == 'leaf' else s[1] for s in shapes),
                 tuple(pre), pid)
        return ev, ('node', label)

    # process bodies ----------------------------------------------------------------------------
    def start_proc(self, pid, ops, by=None):
        p = self.mk_process(self.body(pid, ops))
        self.env.name(p, pid)
        tgt = p.target
        if tgt is not None and type(tgt).__name__ == 'Initialize':
            self.env.name(tgt, 'init:' + pid)
        self.procs[pid] = p
        return p

    def wait(self, pid, i, op, ev):
        env = self.env
        h = op.get('h', 'none')
        tries = 0
        while True:
            lb = env.label(ev)
            self.rec('Y', pid, i, lb, ev.callbacks is None)
            try:
                v = yield ev
            except GeneratorExit:
                raise
            except BaseException as e:
                # A delivered interrupt reaches a process only while its target is unprocessed; a failure is
                # thrown only once the target is processed (a process may fail with an Interrupt of its own).
                if isinstance(e, Interrupt) and not (ev.callbacks is None and not ev.ok):
                    self.rec('R', pid, i, lb, 'intr', san(e.cause), None)
                else:
                    self.rec('R', pid, i, lb, 'exc', (type(e).__name__, san(e.args)), None)
                if h == 'none':
                    raise
            else:
                if type(v).__name__ == 'ConditionValue':
                    data = ('CV', tuple((env.label(e), san(x)) for e, x in v.items()))
                    self.cvs.append((pid, i, lb, v, data))
                else:
                    data = san(v)
                self.rec('R', pid, i, lb, 'ok', data, v is ev.value)
                return 'next'
            if h == 'cont':
                return 'next'
            if h == 'rewait':
                tries += 1
                if tries > 2:
                    return 'next'
                continue
            if h == 'ret':
                return 'ret'
            if h == 'raise':
                raise KeyError('handler', pid, i)
            # 'other': wait for something else, then go on
            ev = self.mk_timeout(op.get('hd', 0.5), 'h')
            env.name(ev, '%s.%d.h%d' % (pid, i, tries))
            tries += 1
            if tries > 2:
                return 'next'

    def give_back(self, pid, mine):
        for req in mine:
            if req.triggered:
                self.res.release(req)
            else:
                self.withdrawn.add(id(req))
                req.cancel()
        if mine:
            self.rec('O', pid, None, 'release', len(mine))
        del mine[:]

    def body(self, pid, ops):
        env = self.env
        self.rec('B', pid)
        mine = []
        try:
            r = yield from self._body(pid, ops, mine)
        except GeneratorExit:
            del mine[:]              # the world is being discarded: nothing to give back
            raise
        finally:
            if mine:
                self.give_back(pid, mine)
        return r

    def _body(self, pid, ops, mine):
        env = self.env
        try:
            for i, op in enumerate(ops):
                k = op['op']
                ev = None
                if k == 'timeout':
                    ev = self.mk_timeout(op['d'], op.get('v'))
                    env.name(ev, '%s.%d' % (pid, i))
                elif k == 'wait':
                    ev = self.shared.get(op['ev'])
                elif k == 'waitt':
                    ev = self.named.get(op['t'])
                elif k == 'join':
                    ev = self.procs.get(op['p'])
                    if op['p'] == pid:
                        ev = None
                elif k == 'waitl':
                    ev = env.by_label.get(op['lb'])
                elif k == 'cond':
                    try:
                        r = self.build_tree(op['tree'], '%s.%d' % (pid, i), pid)
                    except ValueError as e:
                        self.rec('O', pid, i, 'cond-refused', san(e))
                        r = None
                    ev = r[0] if r else None
                elif k == 'succeed' or k == 'fail':
                    tgt = self.shared.get(op['ev'])
                    if tgt is None:
                        continue
                    before = (tgt.triggered, getattr(tgt, '_ok', None), san(getattr(tgt, '_value', None)))
                    try:
                        if k == 'succeed':
                            tgt.succeed(rv(op.get('v')))
                        else:
                            tgt.fail(mkexc(op['exc']))
                        out = 'ok'
                    except RuntimeError:
                        out = 'RuntimeError'
                    after = (tgt.triggered, getattr(tgt, '_ok', None), san(getattr(tgt, '_value', None)))
                    self.rec('O', pid, i, k, op['ev'], out, before, after)
                    continue
                elif k == 'interrupt':
                    tgt = self.procs.get(op['p'])
                    if tgt is None:
                        continue
                    alive = tgt.is_alive
                    try:
                        tgt.interrupt(op.get('cause'))
                        out = 'ok'
                    except RuntimeError:
                        out = 'RuntimeError'
                    self.rec('O', pid, i, 'interrupt', op['p'], op.get('cause'), out, alive)
                    continue
                elif k == 'spawn':
                    if op['id'] in self.procs:
                        continue
                    self.rec('O', pid, i, 'spawn', op['id'])
                    self.start_proc(op['id'], op.get('ops', []), by=pid)
                    continue
                elif k == 'addcb':
                    tgt = self.shared.get(op['ev'])
                    if tgt is not None:
                        self.add_cb(tgt, op['id'], op.get('defuse', False), pid)
                    continue
                elif k == 'chain':
                    src, dst = self.shared.get(op['src']), self.shared.get(op['dst'])
                    if src is None or dst is None or src is dst or src.callbacks is None:
                        continue

                    def hand_on(ev, dst=dst, a=op['src'], b=op['dst']):
                        if dst.triggered:
                            # the callback door of succeed/fail on an event that already has its outcome
                            before = (dst.triggered, getattr(dst, '_ok', None), san(getattr(dst, '_value', None)))
                            n0 = len(env.log)
                            try:
                                dst.trigger(ev)
                                out = 'ok'
                            except RuntimeError:
                                out = 'RuntimeError'
                            after = (dst.triggered, getattr(dst, '_ok', None), san(getattr(dst, '_value', None)))
                            again = sum(1 for r in env.log[n0:] if r[0] == 'T' and r[2] == b)
                            self.rec('O', None, None, 'chain-again', b, a, out, before, after, again)
                            return
                        dst.trigger(ev)
                        self.rec('O', None, None, 'chained', b, a)
                    src.callbacks.append(hand_on)
                    self.rec('O', pid, i, 'chain', op['src'], op['dst'])
                    continue
                elif k == 'fire':
                    try:
                        fev = self.mk_timeout(op['d'], op.get('v'))
                    except ValueError:
                        continue
                    env.name(fev, '%s.%d' % (pid, i))
                    fev.callbacks.append(self.make_cb(op.get('cb', 'f'), False))
                    self.rec('O', pid, i, 'addcb', '%s.%d' % (pid, i), op.get('cb', 'f'), 'plain')
                    continue
                elif k == 'request':
                    if mine:
                        continue
                    if self.res is None:
                        from onl.sim import Resource as _Resource
                        self.res = _Resource(env, capacity=1)
                    ev = self.res.request()
                    env.name(ev, '%s.%d' % (pid, i))
                    mine.append(ev)
                    self.requests.append((pid, '%s.%d' % (pid, i), ev))
                elif k == 'release':
                    self.give_back(pid, mine)
                    continue
                elif k == 'newenv':
                    from onl.sim import Environment as _Env
                    e2 = _Env(env.now)
                    for j in range(int(op.get('n', 0))):
                        e2.timeout(j)
                    e2.run()
                    self.rec('O', pid, i, 'newenv', op.get('n', 0))
                    continue
                elif k == 'negtimeout':
                    n0 = len(env.log)
                    try:
                        self.mk_timeout(op['d'])
                        out = 'accepted'
                    except ValueError:
                        out = 'ValueError'
                    trig = sum(1 for r in env.log[n0:] if r[0] == 'T')
                    self.rec('O', pid, i, 'negtimeout', op['d'], out, trig)
                    continue
                elif k == 'ret':
                    self.rec('E', pid, 'ret', san(rv(op.get('v'))))
                    return rv(op.get('v'))
                elif k == 'raise':
                    raise mkexc(op['exc'])
                elif k == 'tick':
                    # filler: n unrecorded zero-delay occurrences (a long-running simulation has scheduled millions of
                    # events before the coincidence of interest; only the kernel's internal counters notice)
                    self.rec('O', pid, i, 'tick', op.get('n', 0))
                    for _ in range(int(op.get('n', 0))):
                        env.quiet = True
                        try:
                            fe = env.timeout(0)
                        finally:
                            env.quiet = False
                        yield fe
                    continue
                elif k == 'burn':
                    if hasattr(self, 'wall'):
                        self.wall.burn(op['w'])
                    continue
                elif k == 'beat':
                    # a long, regular life: n periods of d, each costing w of wall time (real-time runs)
                    self.rec('O', pid, i, 'beat', op.get('n', 0))
                    for _ in range(int(op.get('n', 0))):
                        if hasattr(self, 'wall'):
                            self.wall.burn(op.get('w', 0))
                        yield self.mk_timeout(op.get('d', 1))
                    continue
                elif k == 'sync':
                    if hasattr(env, 'sync'):
                        env.sync()
                        self.rec('O', pid, i, 'sync', self.wall.t if hasattr(self, 'wall') else None)
                    continue
                if ev is None:
                    continue
                r = yield from self.wait(pid, i, op, ev)
                if r == 'ret':
                    self.rec('E', pid, 'ret', ('h', i))
                    return ('h', i)
        except GeneratorExit:
            raise
        except BaseException as e:
            if isinstance(e, (ImportError, NameError, UnboundLocalError)):
                tb = e.__traceback__
                while tb is not None and tb.tb_next is not None:
                    tb = tb.tb_next
                from .repo import is_repo_frame
                if tb is not None and not is_repo_frame(tb.tb_frame.f_code.co_filename):
                    env.harness_fault = repr(e)      # a bug of the harness itself, not an outcome of the program
            self.rec('E', pid, 'raise', (type(e).__name__, san(e.args)))
            raise
        self.rec('E', pid, 'ret', None)
        return None


def setup_world(case, env=None):
    env = env or TapEnvironment(case.get('t0', 0))
    if case.get('noprobe'):
        env.probe_enabled = False
    w = World(env)
    w.ctl = bool(case.get('ctl_exc'))
    w.doors = case.get('doors', 'env')
    for s in case.get('shared', []):
        ev = w.mk_event()
        env.name(ev, s)
        w.shared[s] = ev
    for it in case.get('setup', []):
        k = it.get('k')
        if k == 'proc':
            if it['id'] not in w.procs:
                w.start_proc(it['id'], it.get('ops', []))
        elif k == 'timeout':
            try:
                ev = w.mk_timeout(it['d'], it.get('v'))
            except ValueError:
                continue
            env.name(ev, it['id'])
            w.named[it['id']] = ev
            if it.get('cb'):
                ev.callbacks.append(w.make_cb(it['cb'], False))
                w.rec('O', None, None, 'addcb', it['id'], it['cb'], 'plain')
        elif k == 'cb':
            ev = w.shared.get(it['ev'])
            if ev is not None:
                w.add_cb(ev, it['id'], it.get('defuse', False), None)
    return w


def lookup(w, label):
    return w.shared.get(label) or w.procs.get(label) or w.named.get(label)


def drive(w, plan, max_steps=3000):
    """Execute a drive plan. Returns the number of kernel steps executed."""
    env = w.env
    for item in plan:
        if env.step_no >= max_steps:
            break
        k = item[0]
        if k == 'real_run':
            # the caller's plain env.run(): until nothing is left - or until a failure nobody handled comes out of it
            try:
                r = env.run()
                w.rec('D', 'run', None, 'ret', san(r), None)
            except (Exception, HarnessAbort) as e:
                w.rec('D', 'run', None, 'exc', san(e), None)
            w.rec('DN', env.now, env.peek() == float('inf'))
        elif k == 'run':
            while env.step_no < max_steps:
                try:
                    env.step()
                except EmptySchedule:
                    if env.peek() == float('inf'):
                        break
                except StopSimulation:
                    pass
                except (Exception, HarnessAbort):
                    pass
        elif k == 'steps':
            for _ in range(item[1]):
                try:
                    env.step()
                except EmptySchedule:
                    break
                except StopSimulation:
                    pass
                except (Exception, HarnessAbort):
                    pass
        elif k == 'until':
            t = item[1]
            now0 = env.now
            n0 = len(env.log)
            illegal = t <= now0
            try:
                r = env.run(until=t)
                w.rec('D', 'until', t, 'illegal-accepted' if illegal else 'ret', san(r), now0)
            except ValueError as e:
                if illegal:
                    trig = sum(1 for x in env.log[n0:] if x[0] in ('T', 'P'))
                    w.rec('D', 'until', t, 'ValueError', trig, now0)
                else:
                    w.rec('D', 'until', t, 'exc', san(e), now0)
            except (Exception, HarnessAbort) as e:
                # the call is over (abandoned by an exception of the program); its stop must not end a later run
                w.rec('D', 'until', t, 'exc', san(e), now0)
            if getattr(w, 'ctl', False):
                w.rec('DN', env.now, env.peek() == float('inf'))
        elif k in ('until_ev', 'until_cond'):
            if k == 'until_cond':
                # the caller waits for a combination of events: a condition built outside any process
                ops = [e for e in (lookup(w, lb) for lb in item[2]) if e is not None]
                if not ops:
                    continue
                auto = env._auto
                try:
                    ev = env.any_of(ops) if item[1] == 'any' else env.all_of(ops)
                except ValueError:
                    continue
                env.name(ev, item[3])
                env._auto = auto           # automatic labels of the program stay what they are in an unsplit run
                item = [k, item[3]]
            else:
                ev = lookup(w, item[1])
            if ev is None:
                continue
            was = ev.callbacks is None
            s0 = env.step_no
            try:
                r = env.run(until=ev)
                w.rec('D', 'until_ev', item[1], 'ret', san(r), r is getattr(ev, '_value', None), was,
                      env.step_no - s0)
            except (Exception, HarnessAbort) as e:
                w.rec('D', 'until_ev', item[1], 'exc', san(e), None, was, env.step_no - s0)
    if getattr(env, 'harness_fault', None):
        raise RuntimeError('harness fault inside a process body: %s' % env.harness_fault)
    return env.step_no


def _finish_until(w, max_steps):
    """An exception escaped run(until=t): keep stepping until the pending sentinel stops the run."""
    env = w.env
    while env.step_no < max_steps:
        try:
            env.step()
        except EmptySchedule:
            break
        except StopSimulation:
            break
        except (Exception, HarnessAbort):
            pass


def body_view(log):
    """What the bodies of the processes themselves observe (yields, resumptions with instants and values, ends, the
    outcomes of their own actions), without the harness's per-occurrence records and counters."""
    out = []
    for r in log:
        if r[0] in ('Y', 'R', 'E', 'B'):
            out.append((r[0], r[2]) + tuple(r[4:]))
        elif r[0] == 'O' and len(r) > 6 and r[6] in ('succeed', 'fail', 'interrupt', 'spawn', 'chained', 'chain-again'):
            out.append((r[0], r[2]) + tuple(r[4:]))
        elif r[0] == 'D':
            out.append((r[0], r[2]) + tuple(r[4:8]))
    return out


def unprobed_twin(case, max_steps):
    """The same program once more, with no probe call-back on any event: a kernel that treats an event nobody has
    subscribed to differently shows up as a different story told by the bodies. Returns None or (index, probed, bare)."""
    c2 = dict(case)
    c2['noprobe'] = True
    w2 = setup_world(c2)
    drive(w2, c2.get('drive', [['run']]), max_steps=max_steps)
    return body_view(w2.env.log)


def first_difference(a, b):
    for k, (x, y) in enumerate(zip(a, b)):
        if x != y:
            return k, x, y
    if len(a) != len(b):
        k = min(len(a), len(b))
        return k, (a[k] if k < len(a) else None), (b[k] if k < len(b) else None)
    return None


def excerpt(env, n=80):
    return [repr(r) for r in env.log[-n:]]
