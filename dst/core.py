"""Runner, seeds, shrinker, replay files, evidence, known findings.

One run:  seed_i = derive(VERIF_SEED, property, tier, i) -> rng -> case = gen(rng) -> run(case) -> verdict.
`case` is plain JSON data; `run(case)` is a pure function of the case and the code under VERIF_REPO.
"""
import collections
import concurrent.futures
import copy
import hashlib
import importlib
import io
import json
import multiprocessing
import os
import random
import signal
import subprocess
import sys
import time
import traceback

from . import repo

VERIF = os.path.dirname(os.path.dirname(os.path.abspath(__file__)))
PY = sys.executable


import re
_ADDR = re.compile(r' at 0x[0-9a-fA-F]+')


class HarnessError(Exception):
    pass


class Hang(BaseException):
    """Raised by the per-run alarm: code under test did not yield control."""


def derive(base, pid, tier, i):
    h = hashlib.sha256(('%d:%s:%s:%d' % (base, pid, tier, i)).encode()).digest()
    return int.from_bytes(h[:8], 'big')


def digest_of(obj):
    """64-bit digest of a plain-data object (tuples/lists/str/int/float/bool/None)."""
    h = hashlib.sha256(repr(obj).encode()).digest()
    return int.from_bytes(h[:8], 'big')


def san(v, depth=0):
    """Sanitise a value for logs: plain data stays, everything else becomes a type tag (no addresses)."""
    if isinstance(v, str):
        return _ADDR.sub('', v) if '0x' in v else v
    if v is None or isinstance(v, (bool, int)):
        return v
    if isinstance(v, float):
        return v
    if depth > 4:
        return '<deep>'
    if isinstance(v, (list, tuple)):
        return tuple(san(x, depth + 1) for x in v)
    if isinstance(v, dict):
        return tuple((san(k, depth + 1), san(x, depth + 1)) for k, x in v.items())
    if isinstance(v, BaseException):
        return ('exc', type(v).__name__, san(v.args, depth + 1))
    return '<%s>' % type(v).__name__


def load_prop(pid):
    repo.load()
    return importlib.import_module('dst.props.%s' % pid.lower())


# --------------------------------------------------------------------------- one run

class _Null(io.TextIOBase):
    def write(self, s):
        return len(s)


_NULL = _Null()


def _alarm(signum, frame):
    raise Hang()


def _repo_frames(tb):
    out = []
    for fs in traceback.extract_tb(tb):
        if repo.is_repo_frame(fs.filename):
            out.append('%s:%d:%s' % (os.path.relpath(fs.filename, repo.REPO), fs.lineno, fs.name))
    return out


def safe_run(mod, case, hang_s=10.0):
    """Execute one case. Returns the property module's result dict.

    A Hang, or an exception that escapes the harness with a frame of the code under test on its
    traceback, is a violation (clause HANG / RAISE); anything else is a harness error.
    """
    if any(case.get(k) for k in ('long_haul', 'long_life', 'crowd', 'many_joins', 'long_run', 'long_rt', 'big_barrier')):
        hang_s = max(hang_s, 90.0)      # the deliberately long lives (thousands of packets, a million filler events)
    old_out = sys.stdout
    sys.stdout = _NULL
    # the limit is CPU time of this process (a spinning kernel burns CPU; a loaded machine does not make a run "hang"),
    # with a generous wall-clock limit as a back-stop for code that blocks without computing
    old_handler = signal.signal(signal.SIGVTALRM, _alarm)
    old_wall = signal.signal(signal.SIGALRM, _alarm)
    TIMER, WALL = signal.ITIMER_VIRTUAL, signal.ITIMER_REAL
    wall_s = max(120.0, hang_s * 12)
    # runs that have to precede this one in the same interpreter (code under test that keeps state between
    # independent simulations): executed first, their verdicts are ignored
    for pre in case.get('pre_runs', []) or []:
        signal.setitimer(TIMER, hang_s)
        signal.setitimer(WALL, wall_s)
        try:
            mod.run(pre)
        except BaseException:
            pass
        finally:
            signal.setitimer(TIMER, 0)
            signal.setitimer(WALL, 0)
    signal.setitimer(TIMER, hang_s)
    signal.setitimer(WALL, wall_s)
    try:
        res = mod.run(case)
    except Hang:
        res = {'viol': [('%s.HANG' % mod.ID, 'run did not finish within %.0fs of CPU time '
                         '(code under test spins without yielding?)' % hang_s)],
               'digest': 0, 'nontrivial': False, 'stats': {}, 'simtime': 0.0, 'steps': 0}
    except HarnessError:
        raise
    except Exception as e:
        frames = _repo_frames(e.__traceback__)
        if not frames:
            raise HarnessError('harness exception: %s\n%s' % (repr(e), traceback.format_exc()))
        res = {'viol': [('%s.RAISE' % mod.ID, 'code under test raised %s at %s' % (repr(e), frames[-1]))],
               'digest': 0, 'nontrivial': False, 'stats': {}, 'simtime': 0.0, 'steps': 0}
    finally:
        signal.setitimer(TIMER, 0)
        signal.setitimer(WALL, 0)
        signal.signal(signal.SIGVTALRM, old_handler)
        signal.signal(signal.SIGALRM, old_wall)
        sys.stdout = old_out
    return res


def gen_case(mod, base_seed, tier, i):
    seed = derive(base_seed, mod.ID, tier, i)
    rng = random.Random(seed)
    case = mod.gen(rng, tier)
    case['_seed'] = seed
    case['_index'] = i
    return case


# --------------------------------------------------------------------------- batch worker

_MOD = None


def _work(args):
    pid, tier, base_seed, start, stop, want_samples = args[:6]
    deadline = args[6] if len(args) > 6 else None
    mod = _MOD if _MOD is not None and _MOD.ID == pid else load_prop(pid)
    out = {'n': 0, 'digests': set(), 'stats': collections.Counter(), 'simtime': 0.0, 'steps': 0,
           'viol': [], 'samples': [], 'error': None, 'interleavings': set(), 'trivial': 0}
    try:
        for i in range(start, stop):
            if deadline is not None and out['n'] > 0 and time.time() > deadline:
                break                            # the batch's budget is used up: the rest of this chunk is not run
            case = gen_case(mod, base_seed, tier, i)
            if want_samples and len(out['samples']) < want_samples:
                case['_excerpt'] = True          # evidence samples carry the tail of their recorded history
            res = safe_run(mod, case)
            out['n'] += 1
            if res.get('nontrivial'):
                out['digests'].add(res['digest'])
            else:
                out['trivial'] += 1
            il = res.get('interleaving')
            if il is not None:
                out['interleavings'].add(il)
            out['stats'].update(res.get('stats', {}))
            out['simtime'] += float(res.get('simtime', 0.0))
            out['steps'] += int(res.get('steps', 0))
            if res['viol'] and len(out['viol']) < 50:
                out['viol'].append((i, res['viol'][:6]))
            if want_samples and len(out['samples']) < want_samples:
                c = {k: v for k, v in case.items() if k != '_excerpt'}
                ex = res.get('excerpt')
                out['samples'].append({'case': c, 'history_tail': ex[-25:] if ex else None,
                                       'verdict': [list(v) for v in res['viol'][:3]]})
    except HarnessError as e:
        out['error'] = 'index %d: %s' % (i, e)
    except BaseException as e:  # pragma: no cover
        out['error'] = 'index %d: %s\n%s' % (i, repr(e), traceback.format_exc())
    return out


# --------------------------------------------------------------------------- shrinking

def _paths_of_lists(obj, path=()):
    if isinstance(obj, list):
        yield path
        for k, v in enumerate(obj):
            yield from _paths_of_lists(v, path + (k,))
    elif isinstance(obj, dict):
        for k in obj:
            if isinstance(k, str) and k.startswith('_'):
                continue
            yield from _paths_of_lists(obj[k], path + (k,))


def _get(obj, path):
    for k in path:
        obj = obj[k]
    return obj


def _scalar_paths(obj, path=()):
    if isinstance(obj, bool):
        return
    if isinstance(obj, (int, float)):
        yield path
    elif isinstance(obj, list):
        for k, v in enumerate(obj):
            yield from _scalar_paths(v, path + (k,))
    elif isinstance(obj, dict):
        for k in obj:
            if isinstance(k, str) and k.startswith('_'):
                continue
            yield from _scalar_paths(obj[k], path + (k,))


def shrink(mod, case, clause, budget=400, log=None):
    """Delta-debugging over every list in the case, then scalar simplification.

    A candidate is kept only if it still violates the same clause. Cases are written so that dangling
    references are ignored by the executor, hence any sub-list is again a valid case.
    """
    used = [0]
    frozen = set(getattr(mod, 'SHRINK_KEEP', ()))
    t_end = time.time() + float(os.environ.get('VERIF_SHRINK_WALL', '25'))

    valid = getattr(mod, 'valid', None)

    def fails(c):
        if used[0] >= budget or time.time() > t_end:
            used[0] = budget
            return False
        if valid is not None:
            try:
                if not valid(c):
                    return False
            except Exception:
                return False
        used[0] += 1
        try:
            r = safe_run(mod, c)
        except HarnessError:
            return False
        return any(cl == clause for cl, _ in r['viol'])

    best = copy.deepcopy(case)
    progress = True
    while progress and used[0] < budget:
        progress = False
        paths = [p for p in _paths_of_lists(best) if p and not (set(map(str, p)) & frozen)]
        paths.sort(key=lambda p: -len(_get(best, p)))
        for p in paths:
            try:
                lst = _get(best, p)
            except (KeyError, IndexError, TypeError):
                continue
            if not isinstance(lst, list) or not lst:
                continue
            n = len(lst)
            chunk = max(1, n // 2)
            while used[0] < budget:
                i = 0
                while i < len(lst) and used[0] < budget:
                    cand = copy.deepcopy(best)
                    cl = _get(cand, p)
                    del cl[i:i + chunk]
                    if fails(cand):
                        best = cand
                        lst = _get(best, p)
                        progress = True
                    else:
                        i += chunk
                if chunk == 1:
                    break
                chunk = max(1, chunk // 2)
        # scalars
        for p in list(_scalar_paths(best)):
            if used[0] >= budget:
                break
            if set(map(str, p)) & frozen:
                continue
            try:
                v = _get(best, p)
            except (KeyError, IndexError, TypeError):
                continue
            if isinstance(v, bool) or not isinstance(v, (int, float)):
                continue
            cands = []
            if isinstance(v, int):
                for c in (0, 1, v // 2):
                    if c != v and abs(c) < abs(v):
                        cands.append(c)
            else:
                for c in (0.0, 1.0, float(int(v)) if v == v and abs(v) != float('inf') else 1e300, v / 2):
                    if c != v and abs(c) < abs(v):
                        cands.append(c)
            for c in cands:
                cand = copy.deepcopy(best)
                _get(cand, p[:-1])[p[-1]] = c
                if fails(cand):
                    best = cand
                    progress = True
                    break
    return best, used[0]


# --------------------------------------------------------------------------- known findings

def read_known(pid):
    path = os.path.join(VERIF, 'known_findings.txt')
    out = []
    if not os.path.exists(path):
        return out
    for line in open(path):
        line = line.strip()
        if not line.startswith('open:'):
            continue
        body = line[len('open:'):].strip()
        parts = body.split()
        kv = dict(p.split('=', 1) for p in parts if '=' in p and p.split('=')[0] in ('property', 'key'))
        if kv.get('property') != pid:
            continue
        text = ' '.join(p for p in parts if not (p.startswith('property=') or p.startswith('key=')))
        out.append({'key': kv.get('key'), 'text': text})
    return out


# --------------------------------------------------------------------------- replay

def write_replay(mod, case, viol, original, shrink_runs):
    d = os.environ.get('VERIF_REPLAY_DIR') or os.path.join(VERIF, 'replays')
    os.makedirs(d, exist_ok=True)
    path = os.path.join(d, '%s-%d.json' % (mod.ID, original.get('_seed', 0)))
    doc = {'property': mod.ID, 'clause': viol[0][0], 'message': viol[0][1],
           'all_violations': [list(v) for v in viol[:10]],
           'seed': original.get('_seed'), 'index': original.get('_index'),
           'case': case, 'original_case_size': len(json.dumps(original)),
           'minimised_case_size': len(json.dumps(case)), 'shrink_runs': shrink_runs,
           'repo': repo.revision(),
           'replay_cmd': './check %s --replay %s' % (mod.ID, os.path.relpath(path, VERIF))}
    try:
        case2 = dict(case)
        case2['_excerpt'] = True
        r = safe_run(mod, case2)
        doc['history_tail'] = r.get('excerpt')
    except Exception:
        pass
    with open(path, 'w') as f:
        json.dump(doc, f, indent=1, default=str)
    return path


def case_digest(pid, path):
    mod = load_prop(pid)
    doc = json.load(open(path))
    case = doc['case'] if 'case' in doc else doc
    res = safe_run(mod, case)
    print(json.dumps([res['digest'], sorted(set(v[0] for v in res['viol']))]))
    return 0


def reproducibility_violations(mod, path, case, res):
    """Clause 1 of C03 on one explicit case: same program, same and other interpreters, other hash seeds."""
    mine = [res['digest'], sorted(set(v[0] for v in res['viol']))]
    r2 = safe_run(mod, case)
    if [r2['digest'], sorted(set(v[0] for v in r2['viol']))] != mine:
        return [('%s.1' % mod.ID, 'the same case executed twice in one interpreter gives different traces/verdicts')]
    for hs in ('1', '77', '4242', '14', '3', '1000003', '271828', '31337', '5', '99991'):
        env = dict(os.environ)
        env['PYTHONHASHSEED'] = hs
        p = subprocess.run([os.path.join(VERIF, 'check'), mod.ID, '--case-digest', path], capture_output=True,
                           text=True, env=env, timeout=300, cwd=VERIF)
        try:
            other = json.loads(p.stdout.strip().splitlines()[-1])
        except Exception:
            return [('%s.1' % mod.ID, 'fresh interpreter failed on the case: %s' % p.stderr[-300:])]
        if other != mine:
            return [('%s.1' % mod.ID, 'trace/verdict of the same case differs in a fresh interpreter '
                     '(PYTHONHASHSEED=%s): %r vs %r' % (hs, other, mine))]
    return []


def replay(pid, path):
    mod = load_prop(pid)
    doc = json.load(open(path))
    case = doc['case'] if 'case' in doc else doc
    res = safe_run(mod, case)
    if not res['viol'] and getattr(mod, 'NONDETERMINISM_IS_VIOLATION', False):
        res['viol'] = list(res['viol']) + reproducibility_violations(mod, path, case, res)
    if res['viol']:
        for cl, msg in res['viol'][:10]:
            print('  violated %s: %s' % (cl, msg))
        print('VIOLATION property=%s replay=%s' % (pid, path))
        return 1
    print('replay of %s: no violation' % path)
    return 0


# --------------------------------------------------------------------------- determinism self check

def digests_for(mod, base_seed, tier, idxs):
    out = []
    for i in idxs:
        res = safe_run(mod, gen_case(mod, base_seed, tier, i))
        out.append([i, res['digest'], [v[0] for v in res['viol']]])
    return out


def determinism_check(mod, base_seed, tier, k, children=1):
    idxs = list(range(k))
    a = digests_for(mod, base_seed, tier, idxs)
    b = digests_for(mod, base_seed, tier, idxs)
    if a != b:
        bad = [x[0] for x, y in zip(a, b) if x != y]
        return False, 'in-process rerun differs at indices %s' % bad[:5], 0
    seeds = []
    for j in range(children):
        env = dict(os.environ)
        hs = str(1 + (base_seed * 7919 + 13 + 104729 * j) % 4000000)
        seeds.append(hs)
        env['PYTHONHASHSEED'] = hs
        env['VERIF_SEED'] = str(base_seed)
        p = subprocess.run([os.path.join(VERIF, "check"), mod.ID, '--tier', tier, '--digests',
                            '0:%d' % k], capture_output=True, text=True, env=env, timeout=900, cwd=VERIF)
        if p.returncode != 0:
            return False, 'child interpreter failed: %s' % (p.stderr[-2000:]), 0
        c = json.loads(p.stdout.strip().splitlines()[-1])
        if c != a:
            bad = [x[0] for x, y in zip(a, c) if x != y]
            return False, 'fresh interpreter (PYTHONHASHSEED=%s) differs at indices %s' % (hs, bad[:5]), 0
    hs = ','.join(seeds)
    return True, 'PYTHONHASHSEED=%s' % hs, k


# --------------------------------------------------------------------------- main batch

def run_check(pid, tier, base_seed, runs=None, budget=None, jobs=None):
    global _MOD
    t0 = time.time()
    mod = load_prop(pid)
    _MOD = mod
    cfg = dict(mod.TIERS[tier])
    if runs is not None:
        cfg['runs'] = runs
    if budget is not None:
        cfg['budget_s'] = budget
    if os.environ.get('VERIF_RUNS'):
        cfg['runs'] = int(os.environ['VERIF_RUNS'])
    if os.environ.get('VERIF_BUDGET'):
        cfg['budget_s'] = float(os.environ['VERIF_BUDGET'])
    jobs = jobs or int(os.environ.get('VERIF_JOBS', '0')) or min(16, os.cpu_count() or 1)
    total = cfg['runs']
    chunk = max(10, min(cfg.get('chunk', 500), total // (jobs * 4) or 10))
    print('[%s] tier=%s seed=%d runs<=%d budget=%ss jobs=%d repo=%s' %
          (pid, tier, base_seed, total, cfg['budget_s'], jobs, repo.REPO), flush=True)

    # known findings: re-execute the stored reproducers
    known = read_known(pid)
    known_lines = []
    for kf in known:
        fpath = os.path.join(VERIF, 'findings', '%s.json' % kf['key'])
        still = False
        if os.path.exists(fpath):
            doc = json.load(open(fpath))
            r = safe_run(mod, doc['case'])
            still = any(cl == doc['clause'] for cl, _ in r['viol'])
        kf['still'] = still
        kf['count'] = 0
        if still:
            known_lines.append('KNOWN-FINDING: property=%s %s' % (pid, kf['text']))
        else:
            print('note: known finding %s no longer reproduces (stale entry?)' % kf['key'])

    harness_errors = []
    viols = []
    deferred_nondet = None
    agg = {'n': 0, 'digests': set(), 'stats': collections.Counter(), 'simtime': 0.0, 'steps': 0,
           'samples': [], 'interleavings': set(), 'trivial': 0}
    ctx = multiprocessing.get_context('fork')
    starts = list(range(0, total, chunk))
    pending = set()
    nxt = 0
    with concurrent.futures.ProcessPoolExecutor(max_workers=jobs, mp_context=ctx) as ex:
        def submit():
            nonlocal nxt
            while nxt < len(starts) and len(pending) < jobs * 2:
                if nxt > 0 and time.time() - t0 > cfg['budget_s']:
                    return
                s = starts[nxt]
                pending.add(ex.submit(_work, (pid, tier, base_seed, s, min(total, s + chunk),
                                              3 if nxt == 0 else 0, t0 + cfg['budget_s'])))
                nxt += 1
        submit()
        hard_deadline = t0 + cfg['budget_s'] * 3 + 120
        while pending:
            done, _ = concurrent.futures.wait(pending, timeout=5,
                                              return_when=concurrent.futures.FIRST_COMPLETED)
            if not done and time.time() > hard_deadline:
                harness_errors.append('workers exceeded the hard deadline')
                for f in pending:
                    f.cancel()
                break
            for f in done:
                pending.discard(f)
                try:
                    r = f.result()
                except Exception as e:
                    harness_errors.append('worker died: %r' % e)
                    continue
                if r['error']:
                    harness_errors.append(r['error'])
                agg['n'] += r['n']
                agg['digests'] |= r['digests']
                agg['interleavings'] |= r['interleavings']
                agg['stats'].update(r['stats'])
                agg['simtime'] += r['simtime']
                agg['steps'] += r['steps']
                agg['trivial'] += r['trivial']
                agg['samples'] += r['samples']
                viols += r['viol']
            submit()

    # (run after the batch so that state the code under test may keep between runs cannot reach the workers)
    # determinism self-check on a sample of this batch's own seeds
    det_ok, det_msg, det_n = determinism_check(mod, base_seed, tier, cfg.get('det_sample', 24),
                                               cfg.get('det_children', 1))
    if not det_ok:
        if getattr(mod, 'NONDETERMINISM_IS_VIOLATION', False):
            import re as _re
            m_ = _re.search(r'indices \[(\d+)', det_msg)
            # the first run of the sample whose trace differs stands for the violation (its case is the replay file)
            viols.append((int(m_.group(1)) if m_ else -1, [('%s.1' % pid, 'trace not reproducible: ' + det_msg)]))
        else:
            # decided after the batch: if an oracle fails as well, that violation (with the runs that must precede it)
            # is what gets reported; irreproducibility alone is not this property's business
            deferred_nondet = 'nondeterminism: ' + det_msg


    viols.sort(key=lambda x: x[0])
    # one representative (lowest index) per clause
    by_clause = collections.OrderedDict()
    for i, vs in viols:
        cl = vs[0][0]
        by_clause.setdefault(cl, []).append((i, vs))
    reported = []
    n_known = 0
    matchers = getattr(mod, 'KNOWN', {})
    for cl, lst in by_clause.items():
        unmatched = None
        for i, vs in lst:
            if i < 0:
                unmatched = (i, vs, None)
                break
            case = gen_case(mod, base_seed, tier, i)
            hit = None
            for kf in known:
                m = matchers.get(kf['key'])
                if kf['still'] and m is not None and m(case, vs):
                    hit = kf
                    break
            if hit is not None:
                hit['count'] += 1
                n_known += 1
                continue
            unmatched = (i, vs, case)
            break
        if unmatched is None:
            continue
        i, vs, case = unmatched
        if case is None:
            reported.append((cl, vs[0][1], None))
            continue
        small, used = shrink(mod, case, cl, budget=cfg.get('shrink_budget', 400))
        r2 = safe_run(mod, small)
        v2 = [v for v in r2['viol'] if v[0] == cl] + [v for v in r2['viol'] if v[0] != cl]
        # a shrunk case that now matches a known finding is that finding, not a new one
        hit = None
        for kf in known:
            m = matchers.get(kf['key'])
            if kf['still'] and m is not None and m(small, v2):
                hit = kf
        if hit is not None:
            hit['count'] += 1
            n_known += 1
            continue
        path = write_replay(mod, small, v2 or vs, case, used)
        # the replay file must reproduce the violation in a fresh process
        p = subprocess.run([os.path.join(VERIF, "check"), pid, '--replay', path],
                           capture_output=True, text=True, timeout=300, cwd=VERIF)
        if p.returncode != 1 or ('violated %s:' % cl) not in p.stdout:
            # Not reproducible alone. If the same case needs the runs that preceded it in its worker process, the code
            # under test keeps state between independent simulations: replay it together with those runs.
            ok_pre = False
            lo = max(0, (i // chunk - 2) * chunk)
            allpre = [gen_case(mod, base_seed, tier, j) for j in range(lo, i)]
            n_pre = 1
            while allpre and not ok_pre:
                n_pre = min(n_pre, len(allpre))
                cand = dict(case)
                cand['pre_runs'] = allpre[-n_pre:]
                # judged in fresh interpreters only: this process has itself executed many cases by now
                path = write_replay(mod, cand, vs, cand, 0)
                p = subprocess.run([os.path.join(VERIF, "check"), pid, '--replay', path],
                                   capture_output=True, text=True, timeout=900, cwd=VERIF)
                if p.returncode == 1 and ('violated %s:' % cl) in p.stdout:
                    ok_pre = True
                    v2 = [(vs[0][0], vs[0][1] + ' [only after the %d preceding simulation(s) in the same interpreter: the '
                           'code under test keeps state between independent runs]' % n_pre)] + list(vs[1:])
                    break
                if n_pre >= len(allpre):
                    break
                n_pre *= 4
            if not ok_pre and getattr(mod, 'NONDETERMINISM_IS_VIOLATION', False):
                reported.append(('%s.1' % pid, 'a violation of %s seen in the batch (index %d) does not recur when the '
                                 'same explicit case is executed in a fresh interpreter: execution is not reproducible'
                                 % (cl, i), path))
                continue
            if not ok_pre:
                harness_errors.append('violation of %s at index %d does not replay from %s (exit %d)'
                                      % (cl, i, path, p.returncode))
                continue
        reported.append((cl, (v2 or vs)[0][1], path))
        if len(reported) >= 5:
            break

    wall = time.time() - t0
    probes = getattr(mod, 'PROBES', [])
    stats = dict(agg['stats'])
    stuck = [p for p in probes if not stats.get(p)]
    ev = {
        'property_id': pid, 'tier': tier, 'seed': base_seed, 'level': 'exploration',
        'coverage': {
            'evaluations': agg['n'],
            'distinct_nontrivial': len(agg['digests']),
            'rule': mod.RULE,
            'samples': agg['samples'][:3],
            'trivial_runs': agg['trivial'],
            'runs_per_hour': int(agg['n'] / wall * 3600) if wall > 0 else 0,
            'seeds_per_hour': int(agg['n'] / wall * 3600) if wall > 0 else 0,
            'simulated_time_covered': agg['simtime'],
            'kernel_steps': agg['steps'],
            'distinct_same_instant_interleavings': len(agg['interleavings']),
            'fault_and_probe_counts_fired': {k: stats[k] for k in sorted(stats)},
            'probes_stuck_at_zero': stuck,
            'determinism_sample': {'ok': det_ok, 'n': det_n, 'how': det_msg},
            'real_components': getattr(mod, 'REAL', []),
            'stub_components': getattr(mod, 'STUBS', []),
            'known_findings': [{'key': k['key'], 'still_reproduces': k['still'],
                                'matched_runs': k['count']} for k in known],
            'jobs': jobs,
            'repo': repo.revision(),
            'technique': 'deterministic simulation with fault injection: seeded search over generated '
                         'programs/workloads/fault scripts, history-checking oracles, ddmin shrinking, '
                         'replay files',
        },
        'assumptions': getattr(mod, 'ASSUMPTIONS', []),
        'wall_s': round(wall, 3),
        'violations': len(reported),
    }
    evdir = os.environ.get('VERIF_EVIDENCE_DIR') or os.path.join(VERIF, 'evidence')
    os.makedirs(evdir, exist_ok=True)
    with open(os.path.join(evdir, '%s.json' % pid), 'w') as f:
        json.dump(ev, f, indent=1, default=str)

    print('[%s] %d runs in %.1fs (%.0f/s), %d distinct non-trivial histories, %d kernel steps, '
          'sim time %.6g' % (pid, agg['n'], wall, agg['n'] / max(wall, 1e-9), len(agg['digests']),
                             agg['steps'], agg['simtime']))
    if stuck:
        print('[%s] warning: probes never hit: %s' % (pid, ', '.join(stuck)))
    for line in known_lines:
        print(line)
    if deferred_nondet and not reported:
        harness_errors.append(deferred_nondet)
    if harness_errors and reported:
        # a replayable violation outranks accompanying harness trouble
        for h in harness_errors[:3]:
            print('note: %s' % h)
        harness_errors = []
    if harness_errors:
        for h in harness_errors[:5]:
            print('HARNESS-ERROR %s' % h)
        return 2
    if agg['n'] == 0:
        print('HARNESS-ERROR no runs executed')
        return 2
    if reported:
        for cl, msg, path in reported:
            print('  violated %s: %s' % (cl, msg))
            print('VIOLATION property=%s replay=%s' % (pid, path))
        return 1
    print('[%s] OK (%d violating runs matched known findings)' % (pid, n_known))
    return 0


def main(argv):
    import argparse
    ap = argparse.ArgumentParser(prog='check')
    ap.add_argument('property')
    ap.add_argument('--tier', default=os.environ.get('VERIF_TIER', 'quick'), choices=['quick', 'thorough'])
    ap.add_argument('--seed', type=int, default=int(os.environ.get('VERIF_SEED', '0') or 0))
    ap.add_argument('--replay')
    ap.add_argument('--runs', type=int)
    ap.add_argument('--budget', type=float)
    ap.add_argument('--jobs', type=int)
    ap.add_argument('--digests')
    ap.add_argument('--case-digest')
    ap.add_argument('--show', type=int, help='print generated case and verdict for one index')
    a = ap.parse_args(argv)
    pid = a.property.upper()
    try:
        if a.replay:
            return replay(pid, a.replay)
        if a.case_digest:
            return case_digest(pid, a.case_digest)
        if a.digests:
            mod = load_prop(pid)
            s, e = a.digests.split(':')
            print(json.dumps(digests_for(mod, a.seed, a.tier, range(int(s), int(e)))))
            return 0
        if a.show is not None:
            mod = load_prop(pid)
            case = gen_case(mod, a.seed, a.tier, a.show)
            case['_excerpt'] = True
            res = safe_run(mod, case)
            print(json.dumps(case, indent=1, default=str))
            for r in res.get('excerpt') or []:
                print(r)
            print({k: v for k, v in res.items() if k != 'excerpt'})
            return 0
        return run_check(pid, a.tier, a.seed, a.runs, a.budget, a.jobs)
    except HarnessError as e:
        print('HARNESS-ERROR %s' % e)
        return 2
    except Exception as e:
        print(traceback.format_exc())
        print('HARNESS-ERROR %r' % (e,))
        return 2
