"""Engine R: generated request/release/put/get/cancel/interrupt histories on the real resources (C06, C07).

Records added to the TapEnvironment log (G = global action number, st = kernel step or None):
  ('Q0', G, now, st, pid, opi)                                about to create a request
  ('Q', G, now, st, pid, opi, rid, kind, args, triggered)     request created (args: prio/preempt | amount | item | filter)
  ('S', G, now, st, pid, opi, rid, what, ...)                 the process saw something: granted / gave-up / intr / got
  ('U', G, now, st, pid, opi, rid, what, before, after, exc)  release / cancel / double-release / foreign-release
  ('SN', G, now, st, snapshot)                                state after a kernel step
  ('BD', G, now, snapshot)                                    state at an instant boundary (clock about to advance)
"""
import copy
from .core import san
from .tap import TapEnvironment, EmptySchedule, StopSimulation
from onl.packet import Packet
from onl.sim import (Interrupt, Resource, PriorityResource, PreemptiveResource, Container, Store, PriorityStore,
                     FilterStore, PriorityItem)

GRID = [0, 0, 0.5, 1, 1, 1, 2, 2, 3]


class RWorld:
    def __init__(self, case):
        self.case = case
        self.env = TapEnvironment(case.get('t0', 0))
        # requests are observed through schedule() and the harness's own records only: no probe call-back is ever put on
        # a request (a request nobody has yielded yet must look to the resource exactly as it does in production)
        self.env.probe_enabled = False
        self.kind = case['kind']
        cap = case.get('capacity', 1)
        env = self.env
        if self.kind == 'Resource':
            self.res = Resource(env, cap)
        elif self.kind == 'PriorityResource':
            self.res = PriorityResource(env, cap)
        elif self.kind == 'PreemptiveResource':
            self.res = PreemptiveResource(env, cap)
        elif self.kind == 'Container':
            self.res = Container(env, cap if cap is not None else float('inf'), case.get('init', 0))
        elif self.kind == 'Store':
            self.res = Store(env, cap if cap is not None else float('inf'))
        elif self.kind == 'PriorityStore':
            self.res = PriorityStore(env, cap if cap is not None else float('inf'))
        elif self.kind == 'FilterStore':
            self.res = FilterStore(env, cap if cap is not None else float('inf'))
        else:
            raise ValueError(self.kind)
        self.rid = {}        # request object -> rid
        self.req = {}        # rid -> request object
        self.procs = {}
        self.proc_of = {}    # Process object -> pid
        self.items = {}      # item object id -> uid (items are ints / tuples; uid is derivable)
        self.nreq = 0
        self.pending_get = []  # rids of get requests whose value has not been logged

    def rec(self, tag, *rest):
        env = self.env
        env.log.append((tag, env.tick(), env.now, env.step_no if env.in_step else None) + rest)

    def new_rid(self, pid, opi):
        self.nreq += 1
        return '%s.%d' % (pid, opi)

    def register(self, r, rid):
        self.rid[r] = rid
        self.req[rid] = r
        self.env.name(r, rid)

    # snapshots -----------------------------------------------------------------------------------
    def snapshot(self):
        res = self.res
        k = self.kind
        if k in ('Resource', 'PriorityResource', 'PreemptiveResource'):
            return ('res', tuple(self.rid.get(u, '?') for u in res.users),
                    tuple(self.rid.get(q, '?') for q in res.queue), res.count)
        if k == 'Container':
            return ('con', res.level, tuple(self.rid.get(q, '?') for q in res.put_queue),
                    tuple(self.rid.get(q, '?') for q in res.get_queue))
        return ('sto', tuple(item_uid(x) for x in res.items), tuple(self.rid.get(q, '?') for q in res.put_queue),
                tuple(self.rid.get(q, '?') for q in res.get_queue))

    def log_new_gets(self):
        """Log the item every newly granted get request carries (whether or not its process looks at it)."""
        still = []
        for rid in self.pending_get:
            r = self.req[rid]
            if r.triggered:
                try:
                    v = r.value
                except AttributeError:
                    v = None
                self.rec('GV', rid, item_uid(v) if self.kind != 'Container' else None)
            else:
                still.append(rid)
        self.pending_get = still

    def after_step(self):
        self.log_new_gets()
        self.rec('SN', self.snapshot())

    def at_boundary(self):
        self.rec('BD', self.snapshot())


class Num:
    """Marker: items that are equal (1 == 1.0 == True) yet distinct values, told apart by their type."""
    TYPES = {'int': 1, 'float': 1.0, 'bool': True}


def item_uid(x):
    if type(x) in (int, float, bool) and x == 1 and getattr(item_uid, 'nums', False):
        return ('NUM', type(x).__name__)
    if isinstance(x, Packet):
        return ('PKT', x.src, x.payload)
    if isinstance(x, PriorityItem):
        return ('PI', san(x.priority), san(x.item))
    return san(x)


def mk_item(spec):
    if isinstance(spec, dict) and spec.get('num'):
        return Num.TYPES[spec['num']]
    if isinstance(spec, dict):
        if spec.get('pkt'):
            # a Packet as store item; several packets may carry the same (src, flow, id) - they are still distinct items
            src, flow, pid = spec['ids']
            return Packet(0.0, 100, pid, src=src, flow_id=flow, payload=spec['u'])
        if spec.get('pi'):
            return PriorityItem(spec['p'], tuple(spec['u']) if isinstance(spec['u'], list) else spec['u'])
        return (spec['p'], spec['u'])
    if isinstance(spec, list):
        return tuple(spec)
    return spec


def mk_filter(f):
    if f is None or f == 'any':
        return lambda item: True
    if f == 'none':
        return lambda item: False
    col = f
    if f in ('isint', 'isfloat', 'isbool'):
        return lambda item, t={'isint': int, 'isfloat': float, 'isbool': bool}[f]: type(item) is t
    if isinstance(f, list):
        # matches one particular packet (by its unique payload)
        return lambda item, u=f[1]: isinstance(item, Packet) and item.payload == u
    return lambda item: (isinstance(item, tuple) and item[0] == col) or (isinstance(item, Packet) and item.src == col) or \
        (isinstance(item, PriorityItem) and isinstance(item.item, tuple) and item.item[0] == col)


def describe_cause(w, cause):
    if type(cause).__name__ == 'Preempted':
        by = w.proc_of.get(cause.by, '?' if cause.by is not None else None)
        return ('Preempted', by, cause.usage_since, cause.resource is w.res)
    return san(cause)


# ------------------------------------------------------------------------------------------- bodies

def user_body(w, pid, ops):
    env = w.env
    res = w.res
    for i, op in enumerate(ops):
        k = op['op']
        if k == 'sleep':
            try:
                yield env.timeout(op['d'])
            except Interrupt as e:
                w.rec('S', pid, i, None, 'intr', describe_cause(w, e.cause), 'sleep')
            continue
        if k == 'use':
            try:
                yield from use(w, pid, i, op)
            except _Abandon:
                return          # the process ends while it still holds the slot (somebody else may release it, or nobody)
        elif k in ('put', 'get'):
            yield from putget(w, pid, i, op)


def use(w, pid, i, op):
    env, res = w.env, w.res
    rid = w.new_rid(pid, i)
    w.rec('Q0', pid, i)
    if w.kind == 'Resource':
        req = res.request()
        args = (None, None)
    else:
        req = res.request(priority=op.get('prio', 0), preempt=op.get('preempt', True))
        args = (op.get('prio', 0), op.get('preempt', True))
    w.register(req, rid)
    w.rec('Q', pid, i, rid, 'request', args, req.triggered)
    if op.get('lazy') is not None:
        # the requester books the slot, goes on with something else and turns to the request only later
        try:
            yield env.timeout(op['lazy'])
        except Interrupt as e:
            w.rec('S', pid, i, rid, 'intr', describe_cause(w, e.cause), 'lazy')
    style = op.get('style', 'manual')
    phase = 'wait'
    leave_exc = None
    attempts = 0
    try:
        if style == 'with':
            req.__enter__()
        while True:
            try:
                if op.get('patience') is None:
                    yield req
                else:
                    t = env.timeout(op['patience'])
                    r = yield req | t
                    if req not in r:
                        w.rec('S', pid, i, rid, 'gave-up', req.triggered)
                        raise _GiveUp()
                break
            except Interrupt as e:
                if op.get('on_intr') in ('rewait', 'release_rewait') and op.get('patience') is None and attempts < 3:
                    # the victim goes on waiting for the very same request (optionally after a release() of the
                    # still pending request, which is a release of a non-user: harmless)
                    attempts += 1
                    w.rec('S', pid, i, rid, 'intr', describe_cause(w, e.cause), 'rewait')
                    if op['on_intr'] == 'release_rewait' and not req.triggered:
                        before = w.snapshot()
                        exc = None
                        try:
                            res.release(req)
                        except Exception as e2:  # noqa
                            exc = san(e2)
                        w.rec('U', pid, i, rid, 'harmless-pending', before, w.snapshot(), exc)
                    continue
                raise
        w.rec('S', pid, i, rid, 'granted', req.usage_since)
        if op.get('abandon'):
            w.rec('S', pid, i, rid, 'abandoned')
            raise _Abandon()
        inner = op.get('inner')
        if inner:
            # while holding this slot the process also competes for a slot of a second, preemptive resource; an eviction
            # there (Interrupt(Preempted) of the *other* resource) travels out through this resource's with-block as well
            phase = 'inner'
            if getattr(w, 'res2', None) is None:
                w.res2 = PreemptiveResource(env, capacity=1)
            w.rec('S', pid, i, rid, 'inner-request', inner.get('prio', 0))
            with w.res2.request(priority=inner.get('prio', 0), preempt=True) as q2:
                yield q2
                yield env.timeout(inner.get('hold', 1))
        phase = 'hold'
        yield env.timeout(op.get('hold', 1))
        phase = 'done'
    except Interrupt as e:
        leave_exc = e
        w.rec('S', pid, i, rid, 'intr', describe_cause(w, e.cause), phase)
    except _GiveUp as e:
        leave_exc = e
    # leave: with-exit / cancel / release
    before = w.snapshot()
    exc = None
    w.rec('U0', pid, i, rid, req.triggered)
    try:
        if style == 'with':
            # the exception that ends the block travels through __exit__, as in a real with statement
            if leave_exc is not None and op.get('exit_exc'):
                req.__exit__(type(leave_exc), leave_exc, None)
            else:
                req.__exit__(None, None, None)
            what = 'with-exit'
        elif not req.triggered:
            req.cancel()
            what = 'cancel'
        else:
            res.release(req)
            what = 'release'
    except Exception as e:  # noqa
        exc = san(e)
        what = 'leave-raised'
    w.rec('U', pid, i, rid, what, before, w.snapshot(), exc)
    for extra in op.get('extra', []):
        before = w.snapshot()
        exc = None
        try:
            if extra == 'double':
                res.release(req)
            elif extra == 'foreign':
                # a request that never was a user: an unsatisfiable-now request cancelled at once
                # (created only to be released; it is cancelled before anything can grant it)
                res.release(_never_user(w, pid, i))
        except Exception as e:  # noqa
            exc = san(e)
        w.rec('U', pid, i, rid, 'harmless-' + extra, before, w.snapshot(), exc)


class _GiveUp(Exception):
    pass


class _Abandon(Exception):
    pass


class _Dummy:
    pass


def _never_user(w, pid, i):
    """An object that was never granted: a stand-in request."""
    d = _Dummy()
    d.proc = None
    return d


def putget(w, pid, i, op):
    env, res = w.env, w.res
    k = op['op']
    rid = w.new_rid(pid, i)
    w.rec('Q0', pid, i)
    if w.kind == 'Container':
        req = res.put(op['amount']) if k == 'put' else res.get(op['amount'])
        args = op['amount']
    elif k == 'put':
        item = mk_item(op['item'])
        if op.get('again'):
            # the very same object is handed in a second time (a retransmitted packet, a token passed round)
            cache = w.__dict__.setdefault('objs', {})
            item = cache.setdefault(repr(item_uid(item)), item)
        req = res.put(item)
        args = item_uid(item)
    else:
        if w.kind == 'FilterStore':
            req = res.get(mk_filter(op.get('filter')))
            args = op.get('filter') or 'any'
        else:
            req = res.get()
            args = None
    w.register(req, rid)
    if k == 'get':
        w.pending_get.append(rid)
    w.rec('Q', pid, i, rid, k, args, req.triggered)
    if op.get('forget') and k == 'put':
        # fire and forget: the producer does not wait for its put to be accepted (and may well end before it is)
        w.rec('S', pid, i, rid, 'forgotten', req.triggered)
        return
    style = op.get('style', 'manual')
    leave_exc = None
    attempts = 0
    try:
        while True:
            try:
                if op.get('patience') is None:
                    v = yield req
                else:
                    t = env.timeout(op['patience'])
                    r = yield req | t
                    if req not in r:
                        w.rec('S', pid, i, rid, 'gave-up', req.triggered)
                        raise _GiveUp()
                    v = r[req]
                break
            except Interrupt as e:
                if op.get('on_intr') == 'rewait' and op.get('patience') is None and attempts < 3:
                    attempts += 1
                    w.rec('S', pid, i, rid, 'intr', describe_cause(w, e.cause), 'rewait')
                    continue
                raise
        w.rec('S', pid, i, rid, 'granted', item_uid(v) if (k == 'get' and w.kind != 'Container') else None)
    except Interrupt as e:
        leave_exc = e
        w.rec('S', pid, i, rid, 'intr', describe_cause(w, e.cause), 'wait')
    except _GiveUp as e:
        leave_exc = e
    before = w.snapshot()
    exc = None
    what = 'none'
    if style == 'with' or not req.triggered:
        w.rec('U0', pid, i, rid, req.triggered)
    try:
        if style == 'with':
            if leave_exc is not None and op.get('exit_exc'):
                req.__exit__(type(leave_exc), leave_exc, None)
            else:
                req.__exit__(None, None, None)
            what = 'with-exit'
        elif not req.triggered:
            req.cancel()
            what = 'cancel'
    except Exception as e:  # noqa
        exc = san(e)
        what = 'leave-raised'
    if what != 'none':
        w.rec('U', pid, i, rid, what, before, w.snapshot(), exc)


def interrupter_body(w, plan):
    env = w.env
    last = env.now
    for j, it in enumerate(plan):
        d = it['at'] - (env.now - w.case.get('t0', 0))
        if d > 0:
            yield env.timeout(d)
        elif j > 0 or True:
            yield env.timeout(0)
        p = w.procs.get(it['target'])
        if p is None:
            continue
        alive = p.is_alive
        try:
            p.interrupt(('ext', j))
            out = 'ok'
        except RuntimeError:
            out = 'RuntimeError'
        w.rec('XI', it['target'], j, out, alive)


def run_case(case, max_steps=6000):
    item_uid.nums = any(isinstance(op.get('item'), dict) and op['item'].get('num')
                        for p in case.get('procs', []) for op in p.get('ops', []))
    w = RWorld(case)
    env = w.env
    order = case.get('order') or [p['id'] for p in case.get('procs', [])] + ['#intr']
    byid = {p['id']: p for p in case.get('procs', [])}
    for name in order:
        if name == '#intr':
            if case.get('interrupts'):
                env.process(interrupter_body(w, sorted(case['interrupts'], key=lambda x: x['at'])))
        elif name in byid and name not in w.procs:
            p = env.process(user_body(w, name, byid[name].get('ops', [])))
            env.name(p, name)
            if p.target is not None:
                env.name(p.target, 'init:' + name)
            w.procs[name] = p
            w.proc_of[p] = name
    n = 0
    raised = []
    while n < max_steps:
        if env.peek() > env.now:
            w.log_new_gets()
            w.at_boundary()
        try:
            env.step()
        except EmptySchedule:
            break
        except StopSimulation:
            pass
        except Exception as e:
            raised.append(san(e))
        n += 1
        w.after_step()
    w.steps = n
    w.raised = raised
    w.quiescent = env.peek() == float('inf')
    return w


# ------------------------------------------------------------------------------------------- generation

def gen_resource_case(rng, tier):
    kind = rng.choice(['Resource', 'PriorityResource', 'PreemptiveResource', 'PreemptiveResource'])
    cap = rng.choice([1, 1, 2, 3])
    nprocs = rng.randint(2, 6 + (3 if tier == 'thorough' else 0))
    pool = rng.choice([GRID, [0, 1, 1, 2], [0, 0.5, 1, 1.5, 2, 4]])
    prios = rng.choice([[0], [0, 1], [0, 1, 2], [-1, 0, 0, 1]])
    procs = []
    for p in range(nprocs):
        ops = []
        for _ in range(rng.randint(1, 5)):
            r = rng.random()
            if r < 0.25:
                ops.append({'op': 'sleep', 'd': rng.choice(pool)})
            else:
                op = {'op': 'use', 'prio': rng.choice(prios), 'preempt': rng.random() < 0.6,
                      'patience': rng.choice([None, None, None, 0, 1, 2, 0.5]), 'hold': rng.choice(pool),
                      'style': rng.choice(['manual', 'manual', 'with']), 'extra': [],
                      'on_intr': rng.choice(['leave', 'leave', 'rewait', 'release_rewait']), 'exit_exc': rng.random() < 0.5}
                if rng.random() < 0.1:
                    op['lazy'] = rng.choice(pool)
                if rng.random() < 0.04:
                    op['abandon'] = True         # the user process ends without ever releasing
                elif rng.random() < 0.12:
                    op['inner'] = {'prio': rng.choice([0, 1, 2, 3]), 'hold': rng.choice(pool)}
                if rng.random() < 0.15:
                    op['extra'].append('double')
                if rng.random() < 0.08:
                    op['extra'].append('foreign')
                ops.append(op)
        procs.append({'id': 'u%d' % p, 'ops': ops})
    intr = []
    for _ in range(rng.choice([0, 0, 1, 2, 4])):
        intr.append({'at': rng.choice([0, 0.5, 1, 1, 2, 3, 4, 5]), 'target': 'u%d' % rng.randrange(nprocs)})
    order = [p['id'] for p in procs] + ['#intr']
    rng.shuffle(order)
    return {'engine': 'R', 'kind': kind, 'capacity': cap, 't0': rng.choice([0, 0, 5]), 'procs': procs,
            'interrupts': intr, 'order': order}


def gen_store_case(rng, tier):
    kind = rng.choice(['Container', 'Container', 'Store', 'PriorityStore', 'FilterStore'])
    nprocs = rng.randint(2, 6 + (3 if tier == 'thorough' else 0))
    pool = rng.choice([GRID, [0, 1, 1, 2], [0, 0.5, 1, 1.5, 2, 4]])
    uid = [0]

    def nu():
        uid[0] += 1
        return uid[0]
    if kind == 'Container':
        cap = rng.choice([None, 4, 5, 8, 10])
        init = rng.choice([0, 0, 1, 3, cap or 6])
        if cap is not None:
            init = min(init, cap)
        amounts = rng.choice([[1, 2, 3, 5], [1, 1, 2], [0.5, 1, 2.5, 4], [2, 3, 8],
                              [2.0 ** -32, 3 * 2.0 ** -32, 2.0 ** -30], [0.1, 0.35, 0.6, 1.1, 2.2]])
        if amounts[0] == 0.1:
            # decimal fractions: sums are rounded, "fits exactly" and "one ulp too much" lie next to each other
            cap = rng.choice([1.7, 2.9, 0.7, 3.3, None])
            init = rng.choice([0, 0, 0.1, 0.6])
        if amounts[0] < 1e-6:
            cap = rng.choice([None, 2.0 ** -28, 2.0 ** -29])
            init = 0
    else:
        cap = rng.choice([None, 1, 2, 3, 4])
        init = 0
    pkt_items = kind == 'FilterStore' and rng.random() < 0.35
    # PriorityItems (several of equal priority) held in a FilterStore: items are items, whatever their == says
    pi_items = kind == 'FilterStore' and not pkt_items and rng.random() < 0.25
    # items that compare equal but are different values: 1, 1.0, True (at most one of each in the whole history)
    num_items = kind == 'FilterStore' and not pkt_items and not pi_items and rng.random() < 0.2
    nums_left = ['int', 'float', 'bool']
    rng.shuffle(nums_left)
    made_pkts = []
    procs = []
    for p in range(nprocs):
        ops = []
        bias = rng.random()
        for _ in range(rng.randint(1, 6)):
            r = rng.random()
            if r < 0.2:
                ops.append({'op': 'sleep', 'd': rng.choice(pool)})
                continue
            isput = rng.random() < bias
            op = {'op': 'put' if isput else 'get', 'patience': rng.choice([None, None, None, 0, 1, 2, 0.5]),
                  'style': rng.choice(['manual', 'manual', 'manual', 'with']),
                  'on_intr': rng.choice(['leave', 'leave', 'rewait']), 'exit_exc': rng.random() < 0.5}
            if isput and rng.random() < 0.12:
                op['forget'] = True
            if kind == 'Container':
                op['amount'] = rng.choice(amounts)
            elif isput:
                if kind == 'PriorityStore':
                    op['item'] = {'pi': rng.random() < 0.5, 'p': rng.choice([0, 1, 1, 2, 3, 5]), 'u': nu()}
                elif kind == 'FilterStore' and pkt_items:
                    u = nu()
                    op['item'] = {'pkt': True, 'ids': [rng.choice(['r', 'g', 'b']), rng.randint(0, 1), rng.randint(1, 2)], 'u': u}
                    made_pkts.append(u)
                elif kind == 'FilterStore' and num_items and nums_left:
                    op['item'] = {'num': nums_left.pop()}
                elif kind == 'FilterStore' and pi_items:
                    op['item'] = {'pi': True, 'p': rng.choice([1, 1, 2]), 'u': [rng.choice(['r', 'g', 'b']), nu()]}
                elif kind == 'FilterStore':
                    op['item'] = [rng.choice(['r', 'g', 'b']), nu()]
                else:
                    op['item'] = nu()
            elif kind == 'FilterStore' and num_items:
                op['filter'] = rng.choice(['any', 'isint', 'isfloat', 'isbool', 'none'])
            elif kind == 'FilterStore':
                op['filter'] = rng.choice(['any', 'r', 'g', 'b', 'r', 'none'])
                if pkt_items and made_pkts and rng.random() < 0.5:
                    op['filter'] = ['u', rng.choice(made_pkts)]
            ops.append(op)
        procs.append({'id': 'u%d' % p, 'ops': ops})
    if kind == 'Store' and rng.random() < 0.3:
        # None is a legal item (e.g. an end-of-stream marker): exactly one, so that items stay unique
        cands = [op for p in procs for op in p['ops'] if op.get('op') == 'put']
        rng.shuffle(cands)
        for op, item in zip(cands, [None, 0, '', False][:rng.randint(1, 4)]):
            # falsy items are items like any other; 0 and False compare equal, so at most one of them
            if item is False and any(o.get('item') == 0 and o.get('item') is not False for o in cands):
                continue
            op['item'] = item
    if kind == 'FilterStore' and not num_items and rng.random() < 0.25:
        puts = [op for p in procs for op in p['ops'] if op.get('op') == 'put' and isinstance(op.get('item'), (list, dict))]
        if len(puts) >= 2:
            a, b = rng.sample(puts, 2)
            b['item'] = copy.deepcopy(a['item'])
            a['again'] = b['again'] = True
    if kind == 'PriorityStore' and rng.random() < 0.4:
        # a store that already holds half a dozen items in no particular key order when the getters arrive
        pre = [{'op': 'put', 'patience': None, 'style': 'manual', 'on_intr': 'leave', 'exit_exc': False,
                'item': {'pi': True, 'p': rng.choice([0, 1, 2, 3, 5, 7, 9, 9, 4]), 'u': nu()}} for _ in range(rng.randint(4, 8))]
        procs.insert(0, {'id': 'u%d' % len(procs), 'ops': pre})
    if kind == 'PriorityStore':
        # one store holds either PriorityItems or bare tuples, not both (they do not compare)
        pi = rng.random() < 0.5
        for p in procs:
            for op in p['ops']:
                if op.get('op') == 'put':
                    op['item']['pi'] = pi
    intr = []
    for _ in range(rng.choice([0, 0, 1, 2])):
        intr.append({'at': rng.choice([0, 0.5, 1, 1, 2, 3, 4, 5]), 'target': 'u%d' % rng.randrange(nprocs)})
    order = [p['id'] for p in procs] + ['#intr']
    rng.shuffle(order)
    return {'engine': 'R', 'kind': kind, 'capacity': cap, 'init': init, 't0': rng.choice([0, 0, 5]), 'procs': procs,
            'interrupts': intr, 'order': order}
