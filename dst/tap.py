"""TapEnvironment: the real kernel, observed through its public surface.

A subclass of the repo's Environment overriding the two public methods schedule() and step(); every
trigger and every processing is recorded with a global action number G, then the real method runs.
"""
from . import repo
from .core import san

repo.load()

from onl.sim.core import Environment, EmptySchedule, StopSimulation, Infinity  # noqa: E402
from onl.sim.events import Event, NORMAL, URGENT  # noqa: E402
from onl.sim.rt import RealtimeEnvironment  # noqa: E402

URGENT_KINDS = ('init', 'intr', 'until')


class TapMixin:
    def _tap_init(self):
        self.log = []
        self.G = 0
        self.step_no = 0
        self.in_step = False
        self.labels = {}
        self.by_label = {}
        self._auto = 0
        self._sentinel_next = False
        self._pending_sentinel = None
        self._dead_sentinels = []
        self.tap_enabled = True
        self.probe_enabled = True   # False: observe through schedule()/step() only, leave every callbacks list untouched
        self.quiet = False      # set around the creation of harness filler events that must not be recorded

    def tick(self):
        self.G += 1
        return self.G

    def name(self, ev, label):
        """Give an occurrence a stable, program-derived label. Events that are triggered inside their own
        constructor (Timeout, Initialize, a condition satisfied at construction) have already been seen by
        schedule() under an automatic label: rename that label in the recent log."""
        old = self.labels.get(ev)
        if old == label:
            return label
        if old is not None:
            if '#' not in old:
                return old
            log = self.log
            for idx in range(len(log) - 1, max(-1, len(log) - 60), -1):
                r = log[idx]
                if r[0] == 'T' and r[2] == old:
                    log[idx] = r[:2] + (label,) + r[3:]
                    break
            self.by_label.pop(old, None)
        self.labels[ev] = label
        self.by_label[label] = ev
        return label

    def label(self, ev):
        lb = self.labels.get(ev)
        if lb is None:
            self._auto += 1
            lb = '%s#%d' % (type(ev).__name__, self._auto)
            self.labels[ev] = lb
            self.by_label[lb] = ev
        return lb

    def kind_of(self, ev):
        tn = type(ev).__name__
        if tn == 'Initialize':
            return 'init'
        if tn == 'Interruption':
            return 'intr'
        if tn == 'Timeout':
            return 'timeout'
        if tn == 'Process':
            return 'proc'
        if tn in ('Condition', 'AllOf', 'AnyOf'):
            return 'cond'
        if type(ev) is Event:
            if self._sentinel_next:
                return 'until'
            return 'event'
        return 'req:' + tn

    def rec(self, *t):
        self.log.append(t)

    def _probe(self, event):
        # outcome as the kernel presents it through the public properties at processing time
        try:
            ok = event.ok
            val = san(event.value)
        except AttributeError:
            ok, val = None, '<unavailable>'
        lb = self.label(event)
        if self._pending_sentinel is not None and self._pending_sentinel[0] == lb:
            self._pending_sentinel = None
        self.log.append(('P', self.tick(), lb, self.now, self.step_no, ok, val))
        wc = getattr(self, 'wallclock', None)
        if wc is not None:
            self.log.append(('W', self.tick(), lb, wc.t, self.now))

    def schedule(self, event, priority=NORMAL, delay=0):
        if self.tap_enabled and not self.quiet:
            kind = self.kind_of(event)
            now = self.now
            if kind == 'until':
                # a kernel that routes the numeric run-until stop through schedule(): same occurrence that
                # run() below has already announced; keep one trigger record, with the due time actually used
                self._sentinel_next = False
                ps = self._pending_sentinel
                if ps is not None and self.log and self.log[-1][0] == 'T' and self.log[-1][2] == ps[0]:
                    self.log.pop()
                    self.G -= 1
                    self.name(event, ps[0])
                else:
                    self.name(event, 'until@%d' % (self.G + 1))
            lb = self.label(event)
            due = now + delay
            if due < now and not delay < 0:
                due = now           # int clock + float delay rounded below the clock: nothing is ever due in the past
            self.log.append(('T', self.tick(), lb, kind, now, delay, int(priority),
                             self.step_no if self.in_step else None, due))
            cbs = event.callbacks
            if self.probe_enabled and isinstance(cbs, list) and self._probe not in cbs:
                cbs.insert(0, self._probe)
        return super().schedule(event, priority, delay)

    def step(self):
        self.step_no += 1
        self.in_step = True
        self._sentinel_next = False    # run() places its stop before the first step
        try:
            head = self._queue[0][-1] if self._queue else None  # (the event is the last field of an agenda entry)
        except Exception:
            head = None
        try:
            n0 = len(self.log)
            super().step()
            if self._dead_sentinels and self.tap_enabled and self.probe_enabled and \
                    not any(r[0] == 'P' for r in self.log[n0:]):
                for k, (lb, at) in enumerate(self._dead_sentinels):
                    if at == self.now:
                        # the stop of an abandoned run(): processed like any occurrence, it just stops nothing any more
                        del self._dead_sentinels[k]
                        self.log.append(('P', self.tick(), lb, self.now, self.step_no, True, None))
                        break
        except EmptySchedule as e:
            if head is not None:
                # the agenda was not empty: this is the uncaught exception of a process (or an unhandled failed event)
                # that happens to be of the kernel's own signal type - an escaping failure like any other
                self.log.append(('X', self.tick(), self.step_no, san(e)))
                raise
            self.step_no -= 1
            raise
        except StopSimulation as e:
            if head is not None and getattr(head, '_ok', True) is False and isinstance(getattr(head, '_value', None), StopSimulation) \
                    and head._value.args == e.args and getattr(e, 'failed', None) is None:
                self.log.append(('X', self.tick(), self.step_no, san(e)))     # ditto: not a stop request of run()
                raise
            ps = self._pending_sentinel
            if ps is None and self._dead_sentinels and self._dead_sentinels[0][1] == self.now and not any(
                    r[0] == 'P' for r in self.log[n0:]):
                # a kernel that leaves the stop of an abandoned run armed: the stale stop ends this run
                ps = self._pending_sentinel = self._dead_sentinels.pop(0)
            if ps is not None and self.now == ps[1] and not (
                    self.log and self.log[-1][0] == 'P' and self.log[-1][4] == self.step_no):
                # the numeric run-until stop took effect in this step (it carries no probe when the kernel
                # places it on the agenda directly at its absolute time)
                self._pending_sentinel = None
                self.log.append(('P', self.tick(), ps[0], self.now, self.step_no, True, None))
            raise
        except BaseException as e:
            tb = e.__traceback__
            while tb is not None and tb.tb_next is not None:
                tb = tb.tb_next
            if tb is not None and tb.tb_frame.f_code.co_filename == __file__ and type(e).__name__ != 'Hang':
                # raised by this wrapper itself: a defect of the harness, not an outcome of the simulated program
                self.harness_fault = 'tap.step: %r' % (e,)
            self.log.append(('X', self.tick(), self.step_no, san(e)))
            raise
        finally:
            self.in_step = False
            if not self.probe_enabled:
                self.log.append(('N', self.tick(), self.now, self.step_no))

    def run(self, until=None):
        if until is not None and not isinstance(until, Event):
            self._sentinel_next = True
            try:
                at = until if isinstance(until, int) else float(until)
            except (TypeError, ValueError):
                at = None
            if at is not None and at > self.now and self.tap_enabled:
                # announce the stop occurrence: triggered now, urgent, due at exactly `at`
                lb = 'until@%d' % (self.G + 1)
                self._pending_sentinel = (lb, at)
                self.log.append(('T', self.tick(), lb, 'until', self.now, at - self.now, 0,
                                 self.step_no if self.in_step else None, at))
        try:
            return super().run(until)
        except BaseException:
            # the run was abandoned: a kernel that withdraws the stop request leaves the stop occurrence on the agenda as
            # a dead entry (no callback, hence no probe); step() logs its processing when it comes up
            if self._pending_sentinel is not None:
                self._dead_sentinels.append(self._pending_sentinel)
                self._pending_sentinel = None
            raise
        finally:
            self._sentinel_next = False


class TapEnvironment(TapMixin, Environment):
    def __init__(self, initial_time=0):
        self._tap_init()
        Environment.__init__(self, initial_time)


class TapRealtimeEnvironment(TapMixin, RealtimeEnvironment):
    def __init__(self, initial_time=0, factor=1.0, strict=True):
        self._tap_init()
        RealtimeEnvironment.__init__(self, initial_time, factor, strict)


def drive_steps(env, max_steps, on_step=None, on_boundary=None):
    """Step the kernel until the agenda is empty. Returns (#steps, list of escaped exceptions)."""
    n = 0
    while n < max_steps:
        if on_boundary is not None and env.peek() > env.now:
            on_boundary()
        try:
            env.step()
        except EmptySchedule:
            break
        except StopSimulation:
            pass
        except BaseException as e:
            if isinstance(e, (KeyboardInterrupt, SystemExit)) or type(e).__name__ == 'Hang':
                raise
            pass  # recorded by the tap as an 'X' record
        n += 1
        if on_step is not None:
            on_step()
    return n
