#!/venv/bin/python
"""Regenerate /verif/MANIFEST.json from the table below (one entry per property check that exists)."""
import json
import os

VERIF = os.path.dirname(os.path.dirname(os.path.abspath(__file__)))

TECH = ('deterministic simulation with fault injection: seeded search over generated {what}, executed on the real '
        'code under a recording kernel subclass; history-checking oracle; ddmin-minimised replay file')

CHECKS = {
    'C01': dict(engine='K', what='kernel programs with coinciding occurrences, shuffled trigger orders, interrupts and '
                'numeric run-until stops',
                text='Seeded exploration (quick ~2e4, thorough ~1e6 generated programs) of same-instant interleavings on '
                     'the real kernel; every trigger and every processing is recorded and the processing order is '
                     'required to be the stable sort of the trigger log by (due, urgent-first by occurrence type, '
                     'trigger number), with exact due-time equality. Sampling, not proof: a clean batch is evidence.',
                note='Trusts CPython, the TapEnvironment subclass (observes schedule()/step(), prepends one probe '
                     'callback) and the 40-line order checker. Occurrence class is derived from the event type.',
                ref='4/C01'),
    'C02': dict(engine='K', what='kernel programs with several waiters per event, failures, joins, handlers, double '
                'triggers, interrupts that detach waiters',
                text='Seeded exploration; per processed event the observed registrations are compared with the observed '
                     'invocations (order, exactly once, outcome identity), process termination outcomes with '
                     'Process.ok/value, and escapes from step() with the set of unhandled failures.',
                note='Registration order = G order of the bodies\' pre-yield logs; no condition events in C02 programs.',
                ref='4/C02'),
    'C03': dict(engine='K', what='kernel programs and network scenarios, split plans (run(until=number) at due and '
                'in-between instants, run(until=event), step()xk, illegal stops) and PYTHONHASHSEED values',
                text='Metamorphic seeded exploration: every generated program is executed uninterrupted and under a '
                     'generated split plan on the real kernel and the canonical traces must be equal; return instants '
                     'and values of every run() call are checked; trace digests are compared across in-process reruns '
                     'and fresh interpreters under other hash seeds.',
                note='run(until=event) stops are placed on events that succeed or never trigger; programs in which an '
                     'exception escapes step() are split with step() only.',
                ref='4/C03'),
    'C04': dict(engine='K', what='interrupt-heavy kernel programs: issue instants/orders against the victim\'s awaited '
                'event, all victim reactions, dead and self targets',
                text='Seeded exploration; issue log vs. delivery log per victim (once, in issue order, same instant, '
                     'cause identity), no ordinary occurrence between issue and delivery, detachment and co-waiter '
                     'outcomes through the C02 waiter bookkeeping, RuntimeError for dead/self targets.',
                note='Delivery k is matched to accepted issue k of the same victim; causes are unique per issue.',
                ref='4/C04'),
    'C05': dict(engine='K', what='programs waiting on condition trees (depth<=3) over timeouts, shared events and '
                'processes with all completion orders, pre-processed operands, failures before/after satisfaction',
                text='Seeded exploration; the step in which each condition is triggered, its outcome, the value its '
                     'waiter receives and that value\'s stability are derived from the observed operand history and '
                     'compared with what the kernel did; failure handling around conditions through the C02 escape rule.',
                note='Only roots are waited on; a nested node is required to trigger only while all its ancestors are '
                     'untriggered (the kernel detaches decided subtrees; pinned by test_condition_nested_callback_removal).',
                ref='4/C05'),
    'C06': dict(engine='R', what='request/hold/release/cancel/with-exit/double-release/interrupt histories on Resource, '
                'PriorityResource, PreemptiveResource (capacity 1-3) at coinciding instants',
                text='Seeded exploration; after every kernel step and at every instant boundary (clock about to advance) '
                     'the users/queue/count of the real resource are compared with the books kept from the observed '
                     'grants, releases and legal evictions (worst-ranked user, strictly worse key, Preempted cause), '
                     'grant-rank order is checked at every grant, and no request may wait next to a free slot at a boundary.',
                note='Grants are seen as trigger records of request events; each process uses one request at a time.',
                ref='4/C06'),
    'C07': dict(engine='R', what='put/get/cancel/interrupt histories with amounts, unique items, priorities and filters on '
                'Container, Store, PriorityStore, FilterStore of any capacity and initial level',
                text='Seeded exploration; level/items bounds and conservation after every step, delivery order per store '
                     'kind, FCFS per request kind, and at every instant boundary the oldest pending put/get must be '
                     'unsatisfiable in the current state (also right after cancels); the resource\'s own queues must '
                     'equal the books.',
                note='Amounts are integers/dyadic so level arithmetic is exact; item uids stay unique under shrinking.',
                ref='4/C07'),
    'C09': dict(engine='N', what='port workloads around the queue limit (bytes/packets/None), rates incl. 0, arrivals exactly at '
                'transmission ends, PortMonitor sampling scripts, RED thresholds with scripted uniform draws',
                text='Seeded exploration on the real Port/REDPort/PortMonitor between a harness injector and a recording sink: '
                     'departure law k-th accepted = max(arrival, previous departure) + 8*size/rate (exact on GRID), drop iff rule '
                     'from the G-ordered occupancy ledger, counters and byte_size after every tap, per-hop stamp, monitor samples, '
                     'RED decision per controlled draw against the recomputed EWMA.',
                note='Same-instant leniency in packet mode and for monitor samples at transmission boundaries; RED equality u==p lenient.',
                ref='4/C09'),
    'C10': dict(engine='N', what='wire workloads with scripted delay sequences (constant, decreasing, random, zero), overlapping '
                'flights, scripted loss draws, Cable with two endpoints',
                text='Seeded exploration on the real Wire/Cable: the n-th dequeued packet consumes the next loss draw and, if kept, the '
                     'next delay draw d and must be delivered at max(a+d, previous delivery); lost packets never appear and delay nobody.',
                note='Draws are attributed to a wire by the kernel process that made them; FLOAT mode compares with 1e-9.',
                ref='4/C10'),
    'C11': dict(engine='N', what='shaper workloads with bursts, idle gaps, oversize packets; GRID/FLOAT rates; peak rate; TRTB with/without PIR',
                text='Seeded exploration on the real TokenBucket/TwoRateTokenBucket against the token-bucket recurrence written from '
                     'the statement (exact on GRID), pairwise (rate,bucket) conformance over all departure pairs, peak spacing, colours '
                     'and (CIR,CBS) conformance of green traffic.',
                note='A colour is demanded only where both readings of "committed bucket after a yellow packet" agree.',
                ref='4/C11'),
    'C12': dict(engine='N', what='workloads over 1-5 configured flows for each of SP, WFQ, VC, DRR, RR, WRR: bursts, idle gaps, arrivals '
                'exactly at transmission ends, many-to-one class maps, Monitor sampling scripts',
                text='Seeded exploration on the six real schedulers: timing law departure k = max(previous departure, earliest unserved '
                     'arrival) + 8*size/rate, per-flow FIFO, every packet out exactly once, per-flow counters against the G-ordered ledger '
                     'after every tap, packet_in_service, Monitor samples.',
                note='Workloads use configured flows only; boundaries of transmissions are lenient for in-service/monitor clauses.',
                ref='4/C12'),
    'C13': dict(engine='N', what='SP priority tables (ties allowed) and workloads keeping several priority levels backlogged',
                text='Seeded exploration on the real SP: at every service start (departure - 8*size/rate) no packet of a strictly '
                     'higher-priority flow that arrived at a strictly earlier instant may still be waiting.',
                note='Packets arriving at the very instant of a service start never alarm (same-instant leniency).',
                ref='4/C13'),
    'C14': dict(engine='N', what='WFQ weight and VC vtick tables, static backlogs, staggered starts, idle periods resetting virtual time, '
                'equal stamps, many-to-one class maps',
                text='Seeded exploration on the real WFQ/VC: stamps are recomputed from the observed arrival/departure history by the '
                     'recurrence of the statement; each service start must pick the smallest stamp among certainly-waiting packets; '
                     'no run may raise; static backlogs obey the normalised-service bound.',
                note='Stamps closer than 1e-9 relative are ties; FIFO on exact ties is demanded only for strictly earlier arrival instants.',
                ref='4/C14'),
    'C15': dict(engine='N', what='DRR/RR/WRR weight tables and flow lists, packets around the quantum, classes emptying and refilling mid-round',
                text='Seeded exploration on the real DRR/RR/WRR: cyclic-visit and per-visit-allowance rules for RR/WRR, DRR credit bounds '
                     'at every tap, the fairness bound over every both-backlogged period, and on coincidence-free workloads equality '
                     'with an exact deficit-round-robin reference written from the statement.',
                note='After an idle period the visiting position is unspecified: the reference restarts at the first backlogged class.',
                ref='4/C15'),
    'C19': dict(engine='K', what='stop()/restart(tau) histories issued by controller processes and by the timer callback before, '
                'exactly at and after expiries, several per instant, for one-shot and auto-restart timers with scalar/list/keyword args',
                text='Seeded exploration on the real Timer: a three-field reference (pending expiry, stopped, period) is advanced along '
                     'the G-ordered log of operations and bracketed callback invocations; every firing must match the pending expiry '
                     'exactly, every pending expiry must fire, nothing fires after stop(), no call and no step raises.',
                note='restart() after stop() and restart() of an expired one-shot timer from outside its callback are unspecified: '
                     'afterwards only no-raise is demanded for that timer.',
                ref='4/C19'),
    'C08': dict(engine='N', what='random linear and fan-in/fan-out compositions of ports, wires, token buckets, all six schedulers, '
                'demultiplexers and both switches between injectors / real DistPacketGenerators and real PacketSinks',
                text='Seeded exploration: every element of a generated pipeline is wrapped by identity-recording taps; per element each '
                     'emitted packet must be a received one (same object, same identifying fields, not more often than received), at '
                     'quiescence the packets that did not leave must equal what the element\'s documented rule explains (drop '
                     'counter, scripted loss draws, routing rule) and nothing may be held; per-flow order per element; generator and '
                     'sink bookkeeping against the taps.',
                note='Workloads use flows configured in every scheduler on their path; routing correctness itself is C18.',
                ref='4/C08'),
    'C18': dict(engine='N', what='forwarding tables (incl. empty), output lists, end-device maps, default outputs, hub populations '
                'with/without Wire port devices, splitter fan-outs, FatTree(k) for k in {2,4,6} with seeded flow sets, '
                'identity and many-to-one class maps, four switch schedulers',
                text='Seeded exploration of four scenario families on the real classes: lookup rules observed by recorders on every '
                     'output; hub delivery to every endpoint but the sender, through its wire (delivery instant proves the path); '
                     'splitter identity/independence; fat-tree structure, shortest-path flows, hop-by-hop tables (and ACK class), '
                     'then a simulated fat tree of FairPacketSwitches run to quiescence where every packet must reach exactly its '
                     'own flow\'s sink and nothing may raise.',
                note='The lookup and graph clauses are pure functions of their input (evaluated by inspection inside the scenarios); '
                     'the hub-through-wires, end-to-end and several-flows-per-class clauses are the simulation targets.',
                ref='4/C18 and 5'),
    'C16': dict(engine='TCP', what='arrival permutations/duplicates/gaps at the sink; finite drop / duplicate / delay (overtaking) '
                'scripts by transmission index on the data and the ACK direction between a real sender and a real sink; '
                'Reno and CUBIC; initial RTT estimates, windows, 1-40 segments',
                text='Seeded exploration with fault injection: every ACK the real TCPSink emits must equal the contiguous prefix of a '
                     'reference byte set; after the finite fault script the real sender must complete the transfer (sink holds '
                     '[0,size), acknowledged mark at the end) by quiescence or a generous simulated-time bound, must not raise, '
                     'must not transmit after completion, and on a fault-free path with RTT below its RTO at every transmission '
                     'must send no segment twice.',
                note='FaultLink is the only network the two ends see (harness stub); flow sizes are multiples of the MSS; runs that '
                     'hit the step cap before the time bound are counted inconclusive.',
                ref='4/C16'),
    'C17': dict(engine='TCP', what='scripted ACK histories at a real sender: new ACKs advancing 1..m segments with arbitrary RTT samples, '
                'duplicate-ACK runs of length 1..6, silences that let retransmission timers expire; Reno from random initial '
                'cwnd/ssthresh, CUBIC from its defaults',
                text='Seeded exploration against a textbook reference machine (slow start / congestion avoidance / fast retransmit at '
                     'the 3rd duplicate / inflation / deflation on the next new ACK / timeout -> 1 MSS and RTO doubling / '
                     'Jacobson-Karels) stepped with the same observed history and compared after every event; every new segment is '
                     'checked against the send guard with the sender\'s state at that moment.',
                note='ssthresh after a timeout is unspecified (adopted from the observation); CUBIC avoidance is checked by its '
                     'consequences only.',
                ref='4/C17'),
    'C20': dict(engine='K', what='kernel programs under virtualised wall-clock behaviours: bodies burning wall time, sleeps returning '
                'early/late, monotonic() ticking per call, wall time passing before the first step, sync() at arbitrary points; '
                'factors, initial times, strict on/off',
                text='Seeded exploration: each generated program runs on Environment and on the real RealtimeEnvironment with '
                     'onl.sim.rt.monotonic/sleep replaced by a scripted virtual wall clock; the canonical traces must be equal, '
                     'every occurrence must be processed at wall time >= real_start + (t - initial_time)*factor (real_start '
                     're-based by the harness at every sync()), and the strict error must be raised iff the wall clock is more '
                     'than `factor` past the due instant when step() turns to the next occurrence.',
                note='With a ticking clock the window between step entry and the first clock read is lenient; early sleeps always '
                     'make some progress.',
                ref='4/C20'),
}

ENGINES = [
    {'name': 'K', 'path': 'dst/kprog.py + dst/tap.py', 'serves_properties': ['C01', 'C02', 'C03', 'C04', 'C05', 'C20'],
     'kind_free_text': 'generated kernel programs interpreted on the real onl.sim kernel under TapEnvironment'},
    {'name': 'R', 'path': 'dst/rprog.py', 'serves_properties': ['C06', 'C07'],
     'kind_free_text': 'generated request/release/put/get/cancel/interrupt histories on real resources'},
    {'name': 'N', 'path': 'dst/net.py', 'serves_properties': ['C08', 'C09', 'C10', 'C11', 'C12', 'C13', 'C14', 'C15', 'C18'],
     'kind_free_text': 'generated packet workloads through real network elements wrapped by recording taps'},
    {'name': 'TCP', 'path': 'dst/tcp.py', 'serves_properties': ['C16', 'C17'],
     'kind_free_text': 'real TCP sender/sink joined by scripted fault links; scripted ACK histories'},
]


def main():
    props = [json.loads(l) for l in open(os.path.join(VERIF, 'properties.jsonl'))]
    checks = []
    na = []
    for p in props:
        pid = p['id']
        c = CHECKS.get(pid)
        if c is None or not os.path.exists(os.path.join(VERIF, 'dst', 'props', pid.lower() + '.py')):
            na.append({'property_id': pid, 'reason': 'check not built yet (build in progress; the property is a '
                       'simulation target and will be claimed)'})
            continue
        checks.append({
            'property_id': pid,
            'quick_cmd': './check %s --tier quick' % pid,
            'thorough_cmd': './check %s --tier thorough' % pid,
            'evidence_file': 'evidence/%s.json' % pid,
            'replay_cmd_template': './check %s --replay {path}' % pid,
            'engine': c['engine'],
            'level_claimed': {'category': 'exploration', 'text': c['text'], 'design_ref': 'DESIGN.md section ' + c['ref']},
            'level_note': c['note'],
            'technique': TECH.format(what=c['what']),
        })
    hooks_commits = []
    m = {
        'version': 1,
        'setup_cmd': "/venv/bin/python -c \"import sys; sys.path.insert(0,'/repo'); import onl, networkx\"",
        'hooks': {'guard': 'ONL_EDU_VERIF',
                  'enable': 'no hooks in /repo: checks import /repo\'s working tree directly (VERIF_REPO, default /repo, '
                            'python -B) and observe it through subclasses, taps and module-attribute seams defined in /verif',
                  'baseline_off_cmd': 'cd /repo && /venv/bin/python -m pytest -q -p no:cacheprovider --timeout=900',
                  'source_commits': hooks_commits, 'add_only': True},
        'engines': ENGINES,
        'checks': checks,
        'notes': 'Exit codes: 0 held, 1 VIOLATION (with replay file), 2 HARNESS-ERROR. Genuine defects found and repaired '
                 'are listed in known_findings.txt (fixed: lines) with reproducers under findings/; one open: entry (C05, a '
                 'nested condition first awaited after an enclosing condition was processed; pinned by a test of the '
                 'suite, DESIGN.md 10.3 K1) makes the C05 check print a KNOWN-FINDING line and exit 0.',
        'not_applicable': na,
    }
    json.dump(m, open(os.path.join(VERIF, 'MANIFEST.json'), 'w'), indent=1)
    print('%d checks, %d not yet claimed' % (len(checks), len(na)))


if __name__ == '__main__':
    main()
