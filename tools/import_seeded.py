#!/venv/bin/python
"""Verify a sub-agent's seeded change myself in a scratch copy and keep it under /verif/seeded/<id>/.

usage: tools/import_seeded.py <worktree dir> [<worktree dir> ...]
For every <dir>/mutantN: (1) demo passes on a scratch copy of /repo's current tree, (2) patch applies,
(3) the pinned test-suite passes with it, (4) the demo fails with it. Only then it is stored.
"""
import json
import os
import shutil
import subprocess
import sys

VERIF = os.path.dirname(os.path.dirname(os.path.abspath(__file__)))
PY = '/venv/bin/python'


def sh(cmd, cwd, env=None, timeout=1800):
    e = dict(os.environ)
    e.update(env or {})
    return subprocess.run(cmd, cwd=cwd, env=e, capture_output=True, text=True, timeout=timeout)


def main():
    tag = ''
    args = sys.argv[1:]
    if args and args[0].startswith('--tag='):
        tag = args.pop(0).split('=', 1)[1]
    for wt in args:
        for sub in sorted(os.listdir(wt)):
            md = os.path.join(wt, sub)
            if not (sub.startswith('mutant') and os.path.isdir(md)):
                continue
            meta = json.load(open(os.path.join(md, 'meta.json')))
            pid = meta['property']
            name = '%s-%s%s' % (pid, tag, sub.replace('mutant', 'm'))
            dest = os.path.join(VERIF, 'seeded', name)
            scratch = '/dev/shm/seed_%s' % name
            shutil.rmtree(scratch, ignore_errors=True)
            os.makedirs(scratch)
            subprocess.run(['rsync', '-a', '--exclude', '.git', '--exclude', '__pycache__', '/repo/',
                            scratch + '/'], check=True)
            env = {'PYTHONPATH': scratch, 'PYTHONDONTWRITEBYTECODE': '1'}
            ran = []
            try:
                shutil.copytree(md, os.path.join(scratch, sub))
                demo = os.path.join(sub, 'demo.py')
                r = sh([PY, demo], scratch, env, 600)
                ran.append('demo on clean scratch copy of /repo: exit %d' % r.returncode)
                if r.returncode != 0:
                    print('%s REJECTED: demo fails on the clean tree (exit %d)\n%s' % (name, r.returncode, r.stdout[-800:]))
                    continue
                r = sh(['patch', '-p1', '--no-backup-if-mismatch', '-i', os.path.join(sub, 'patch.diff')], scratch)
                if r.returncode != 0:
                    print('%s REJECTED: patch does not apply\n%s' % (name, r.stdout[-800:]))
                    continue
                r = sh([PY, '-c', 'import onl,sys; print(onl.__file__)'], scratch, env)
                assert r.stdout.strip().startswith(scratch), r.stdout
                r = sh([PY, '-m', 'pytest', '-q', '-p', 'no:cacheprovider', '--timeout=900', '--reruns', '3',
                        'tests'], scratch, env)
                tail = r.stdout.strip().splitlines()[-1] if r.stdout.strip() else ''
                ran.append('pinned suite with patch (PYTHONPATH=scratch, --reruns 3 for wall-clock flakes): %s' % tail)
                if r.returncode != 0 or '119 passed' not in tail:
                    print('%s REJECTED: suite does not pass with the patch: %s' % (name, tail))
                    continue
                r = sh([PY, demo], scratch, env, 600)
                ran.append('demo with patch: exit %d' % r.returncode)
                if r.returncode != 1:
                    print('%s REJECTED: demo does not fail with the patch (exit %d)' % (name, r.returncode))
                    continue
                shutil.rmtree(dest, ignore_errors=True)
                os.makedirs(dest)
                for f in ('patch.diff', 'demo.py'):
                    shutil.copy(os.path.join(md, f), os.path.join(dest, f))
                meta['breaks_property'] = pid
                meta['what_i_ran'] = ran
                meta['demo_failure_output'] = r.stdout[-600:]
                json.dump(meta, open(os.path.join(dest, 'meta.json'), 'w'), indent=1)
                print('%s KEPT: %s' % (name, meta.get('summary', '')[:100]))
            finally:
                shutil.rmtree(scratch, ignore_errors=True)


if __name__ == '__main__':
    main()
