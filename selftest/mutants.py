#!/venv/bin/python
"""Sensitivity self-test: apply small source mutations to a scratch copy of /repo (under /dev/shm, removed
afterwards), point the owning property's check at it through VERIF_REPO and require a VIOLATION.

usage: selftest/mutants.py [--only C01[,C02..]] [--name substr] [--tests] [--tier quick] [--budget S]
Mutants are (property, name, file, old, new) textual replacements, or seeded patches under /verif/seeded.
Results are written to selftest/mutants.json.
"""
import argparse
import json
import os
import shutil
import subprocess
import sys
import time

VERIF = os.path.dirname(os.path.dirname(os.path.abspath(__file__)))
sys.path.insert(0, VERIF)
from selftest.mutant_list import MUTANTS  # noqa: E402


def make_copy(tag):
    d = '/dev/shm/onl_mut_%s_%d' % (tag, os.getpid())
    if os.path.exists(d):
        shutil.rmtree(d)
    os.makedirs(d)
    subprocess.run(['rsync', '-a', '--exclude', '.git', '--exclude', '__pycache__', '/repo/', d + '/'],
                   check=True)
    return d


def apply_text(d, rel, old, new):
    p = os.path.join(d, rel)
    s = open(p).read()
    if s.count(old) != 1:
        raise ValueError('mutant text not found exactly once in %s: %r (found %d)' % (rel, old[:60], s.count(old)))
    open(p, 'w').write(s.replace(old, new))


def run_check(d, pid, tier, budget, runs=None):
    env = dict(os.environ)
    env['VERIF_REPO'] = d
    env['VERIF_BUDGET'] = str(budget)
    env['VERIF_REPLAY_DIR'] = d + '/_replays'
    env['VERIF_EVIDENCE_DIR'] = d + '/_evidence'
    if runs:
        env['VERIF_RUNS'] = str(runs)
    t0 = time.time()
    p = subprocess.run([os.path.join(VERIF, 'check'), pid, '--tier', tier], capture_output=True, text=True,
                       env=env, cwd=VERIF, timeout=3600)
    lines = [l for l in p.stdout.splitlines() if l.startswith('  violated') or l.startswith('VIOLATION')
             or l.startswith('HARNESS')]
    return p.returncode, lines, time.time() - t0


def run_tests(d):
    env = dict(os.environ)
    env['PYTHONPATH'] = d
    p = subprocess.run(['/venv/bin/python', '-m', 'pytest', '-q', '-p', 'no:cacheprovider', '-x',
                        '--timeout=900', '--deselect', 'tests/test_rt.py', 'tests'], capture_output=True,
                       text=True, env=env, cwd=d, timeout=1800)
    tail = p.stdout.strip().splitlines()[-1] if p.stdout.strip() else ''
    return p.returncode == 0, tail


def main():
    ap = argparse.ArgumentParser()
    ap.add_argument('--only')
    ap.add_argument('--name')
    ap.add_argument('--tests', action='store_true')
    ap.add_argument('--tier', default='quick')
    ap.add_argument('--budget', type=float, default=30)
    a = ap.parse_args()
    only = set(a.only.split(',')) if a.only else None
    results = []
    evid_backup = {}
    for m in MUTANTS:
        pid, name = m['prop'], m['name']
        if only and pid not in only:
            continue
        if a.name and a.name not in name:
            continue
        # evidence files are rewritten by every check run: keep the ones of the real tree
        ev = os.path.join(VERIF, 'evidence', '%s.json' % pid)
        if pid not in evid_backup:
            evid_backup[pid] = open(ev).read() if os.path.exists(ev) else None
        d = make_copy(pid)
        try:
            if 'patch' in m:
                pr = subprocess.run(['patch', '-p1', '-s', '--no-backup-if-mismatch', '-i', os.path.join(VERIF, m['patch'])],
                                    cwd=d, capture_output=True, text=True)
                if pr.returncode != 0:
                    print('%-4s %-45s STALE-PATCH does not apply to the current tree' % (pid, name), flush=True)
                    results.append({'prop': pid, 'name': name, 'caught': False, 'exit': None, 'wall_s': 0,
                                    'first': ['stale patch'], 'pinned_tests_pass': None})
                    continue
            else:
                try:
                    for rel, old, new in m['edits']:
                        apply_text(d, rel, old, new)
                except ValueError as e:
                    print('%-4s %-45s STALE-MUTANT %s' % (pid, name, e), flush=True)
                    results.append({'prop': pid, 'name': name, 'caught': False, 'exit': None, 'wall_s': 0,
                                    'first': ['stale mutant text: %s' % e], 'pinned_tests_pass': None})
                    continue
            tests_ok = None
            if a.tests:
                tests_ok, tail = run_tests(d)
            rc, lines, wall = run_check(d, pid, a.tier, a.budget)
            caught = rc == 1
            results.append({'prop': pid, 'name': name, 'caught': caught, 'exit': rc, 'wall_s': round(wall, 1),
                            'first': lines[:2], 'pinned_tests_pass': tests_ok})
            print('%-4s %-45s %s exit=%d %.1fs %s %s' % (pid, name, 'CAUGHT' if caught else 'MISSED', rc, wall,
                                                        '' if tests_ok is None else ('tests=%s' % tests_ok),
                                                        lines[0][:150] if lines else ''), flush=True)
        finally:
            shutil.rmtree(d, ignore_errors=True)
    for pid, content in evid_backup.items():
        ev = os.path.join(VERIF, 'evidence', '%s.json' % pid)
        if content is None:
            if os.path.exists(ev):
                os.remove(ev)
        else:
            open(ev, 'w').write(content)
    # replays produced against mutants are not findings about /repo
    out = os.path.join(VERIF, 'selftest', 'mutants.json')
    prev = []
    if os.path.exists(out):
        try:
            prev = json.load(open(out))
        except Exception:
            prev = []
    keep = [r for r in prev if not any(r['prop'] == x['prop'] and r['name'] == x['name'] for x in results)]
    json.dump(sorted(keep + results, key=lambda r: (r['prop'], r['name'])), open(out, 'w'), indent=1)
    missed = [r for r in results if not r['caught']]
    print('%d mutants, %d caught, %d missed' % (len(results), len(results) - len(missed), len(missed)))
    return 1 if missed else 0


if __name__ == '__main__':
    sys.exit(main())
