#!/venv/bin/python
"""Determinism self-test: for every property, the history digests of seeds 0..N-1 must be identical in fresh
interpreters under different PYTHONHASHSEED values (and for both tiers' generators).

usage: selftest/determinism.py [--n 300] [--only C01,C02]
Writes selftest/determinism.json. Exit 1 on any mismatch.
"""
import argparse
import concurrent.futures
import json
import os
import subprocess
import sys

VERIF = os.path.dirname(os.path.dirname(os.path.abspath(__file__)))
HASHSEEDS = ['0', '1', '31337', '2718281']


def digests(args):
    pid, tier, hs, n = args
    env = dict(os.environ)
    env['PYTHONHASHSEED'] = hs
    p = subprocess.run([os.path.join(VERIF, 'check'), pid, '--tier', tier, '--digests', '0:%d' % n],
                       capture_output=True, text=True, env=env, cwd=VERIF, timeout=3600)
    if p.returncode != 0:
        return pid, tier, hs, None, p.stderr[-500:]
    return pid, tier, hs, json.loads(p.stdout.strip().splitlines()[-1]), None


def main():
    ap = argparse.ArgumentParser()
    ap.add_argument('--n', type=int, default=300)
    ap.add_argument('--only')
    a = ap.parse_args()
    pids = a.only.split(',') if a.only else ['C%02d' % i for i in range(1, 21)]
    jobs = [(pid, tier, hs, a.n) for pid in pids for tier in ('quick', 'thorough') for hs in HASHSEEDS]
    res = {}
    bad = []
    with concurrent.futures.ThreadPoolExecutor(max_workers=min(16, os.cpu_count() or 4)) as ex:
        for pid, tier, hs, d, err in ex.map(digests, jobs):
            if d is None:
                bad.append('%s %s hashseed %s: child failed: %s' % (pid, tier, hs, err))
                continue
            res.setdefault((pid, tier), {})[hs] = d
    out = []
    for (pid, tier), by in sorted(res.items()):
        ref = by.get(HASHSEEDS[0])
        same = all(v == ref for v in by.values())
        out.append({'property': pid, 'tier': tier, 'seeds': a.n, 'hash_seeds': sorted(by), 'identical': same})
        if not same:
            for hs, v in by.items():
                if v != ref:
                    diff = [x[0] for x, y in zip(ref, v) if x != y][:5]
                    bad.append('%s %s: digests under PYTHONHASHSEED=%s differ from %s at indices %s' %
                               (pid, tier, hs, HASHSEEDS[0], diff))
    json.dump(out, open(os.path.join(VERIF, 'selftest', 'determinism.json'), 'w'), indent=1)
    for b in bad:
        print('MISMATCH', b)
    print('%d property/tier combinations, %d mismatches' % (len(out), len(bad)))
    return 1 if bad else 0


if __name__ == '__main__':
    sys.exit(main())
