"""Hand-written mutants (DESIGN.md section 4 'Mutants'); seeded sub-agent patches are appended at the end."""
import glob
import json
import os

CORE = 'onl/sim/core.py'
EVENTS = 'onl/sim/events.py'

MUTANTS = [
    # ---- C01
    dict(prop='C01', name='heap-key-without-insertion-counter', edits=[(CORE,
         "(at, priority, next(self._eid), event))",
         "(at, priority, -next(self._eid), event))")]),
    dict(prop='C01', name='heap-key-without-priority', edits=[(CORE,
         "(at, priority, next(self._eid), event))",
         "(at, 1, next(self._eid), event))")]),
    dict(prop='C01', name='timeout-scheduled-urgent', edits=[(EVENTS,
         "        env.schedule(self, NORMAL, delay)", "        env.schedule(self, URGENT, delay)")]),
    dict(prop='C01', name='interruption-scheduled-normal', edits=[(EVENTS,
         "        self.process = process\n        self.env.schedule(self, URGENT)",
         "        self.process = process\n        self.env.schedule(self, NORMAL)")]),
    dict(prop='C01', name='delay-plus-epsilon-for-floats', edits=[(CORE,
         "        at = self._now + delay\n",
         "        at = self._now + delay * (1 + 2.0 ** -52 * (delay > 1.2))\n")]),
    dict(prop='C01', name='tiny-negative-delay-accepted', edits=[(EVENTS,
         "        if delay < 0:\n            raise ValueError(f'Negative delay {delay}')",
         "        if delay <= -1e-9:\n            raise ValueError(f'Negative delay {delay}')")]),
    dict(prop='C01', name='until-sentinel-normal', edits=[(CORE,
         "heappush(self._queue, (at, URGENT, next(self._eid), until))",
         "heappush(self._queue, (at, NORMAL, next(self._eid), until))")]),
]


def _seeded():
    here = os.path.dirname(os.path.dirname(os.path.abspath(__file__)))
    out = []
    for meta in sorted(glob.glob(os.path.join(here, 'seeded', '*', 'meta.json'))):
        d = os.path.dirname(meta)
        m = json.load(open(meta))
        if m.get('obsolete'):
            continue          # made harmless by a later repair of the code under test (noted in its meta.json)
        out.append(dict(prop=m['property'], name='seeded/' + os.path.basename(d),
                        patch=os.path.relpath(os.path.join(d, 'patch.diff'), here)))
    return out


MUTANTS += _seeded()

MUTANTS += [
    # ---- C02
    dict(prop='C02', name='trigger-hands-on-success-only', edits=[(EVENTS,
         "        self._ok = event._ok\n        self._value = event._value\n        self.env.schedule(self)",
         "        self._ok = True\n        self._value = event._value\n        self.env.schedule(self)")]),
    dict(prop='C02', name='skip-last-callback-when-3plus', edits=[(CORE,
         "        for callback in callbacks:\n            try:",
         "        for callback in (callbacks[:-1] if len(callbacks) > 3 else callbacks):\n            try:")]),
    dict(prop='C02', name='callbacks-reversed', edits=[(CORE,
         "        for callback in callbacks:\n            try:",
         "        for callback in reversed(callbacks):\n            try:")]),
    dict(prop='C02', name='resume-does-not-defuse', edits=[(EVENTS,
         "                    event._defused = True\n\n                    # Create an exclusive copy",
         "                    pass\n\n                    # Create an exclusive copy")]),
    dict(prop='C02', name='swallow-undefused-failures-of-plain-events', edits=[(CORE,
         "        if not event._ok and not hasattr(event, '_defused'):",
         "        if not event._ok and not hasattr(event, '_defused') and hasattr(event, '_generator'):")]),
    dict(prop='C02', name='process-exception-lost-ok-true', edits=[(EVENTS,
         "                event = None  # type: ignore\n                self._ok = False",
         "                event = None  # type: ignore\n                self._ok = isinstance(e, KeyError)")]),
    dict(prop='C02', name='exception-copy-drops-args', edits=[(EVENTS,
         "        exc = cls(*failure.args)\n",
         "        exc = cls(*failure.args[:1])\n")]),
    dict(prop='C02', name='return-value-none-when-falsy', edits=[(EVENTS,
         "                self._value = e.args[0] if len(e.args) else None",
         "                self._value = (e.args[0] or None) if len(e.args) else None")]),
]

MUTANTS += [
    # ---- C04
    dict(prop='C04', name='victim-not-detached-from-target', edits=[(EVENTS,
         "        self.process._target.callbacks.remove(self.process._resume)\n",
         "        pass\n")]),
    dict(prop='C04', name='deliver-to-dead-victims', edits=[(EVENTS,
         "        if self.process.triggered:\n            return\n",
         "")]),
    dict(prop='C04', name='initialize-scheduled-normal', edits=[(EVENTS,
         "        self._ok = True\n        env.schedule(self, URGENT)",
         "        self._ok = True\n        env.schedule(self, NORMAL)")]),
    dict(prop='C04', name='no-self-interrupt-check', edits=[(EVENTS,
         "        if process is self.env.active_process:\n            raise RuntimeError('A process is not allowed to interrupt itself.')\n",
         "")]),
    dict(prop='C04', name='interrupt-cause-dropped-when-falsy', edits=[(EVENTS,
         "        self._value = Interrupt(cause)", "        self._value = Interrupt(cause or None)")]),
    dict(prop='C04', name='second-pending-interrupt-dropped', edits=[(EVENTS,
         "        self.process = process\n        self.env.schedule(self, URGENT)",
         "        self.process = process\n        if getattr(process, '_intr_at', None) == (self.env.now, self.env.active_process):\n            return\n        process._intr_at = (self.env.now, self.env.active_process)\n        self.env.schedule(self, URGENT)")]),
]

MUTANTS += [
    dict(prop='C02', name='trigger-door-unguarded', edits=[(EVENTS,
         "    def trigger(self, event: 'Event') -> None:\n        if self._value is not PENDING:\n            raise RuntimeError(f'{self} has already been triggered')\n",
         "    def trigger(self, event: 'Event') -> None:\n")]),
    dict(prop='C02', name='run-takes-escaped-stop-signal-class-for-its-own', edits=[(CORE,
         "            if exc is getattr(self, '_escaped', None):\n                # not the stop request: a failure nobody handled",
         "            if False:\n                # not the stop request: a failure nobody handled")]),
    # ---- C05
    dict(prop='C05', name='all-events-off-by-one', edits=[(EVENTS,
         "        return len(events) == count", "        return len(events) <= count + (len(events) > 3)")]),
    dict(prop='C05', name='any-events-needs-two', edits=[(EVENTS,
         "        return count > 0 or len(events) == 0", "        return count > (len(events) > 2) or len(events) == 0")]),
    dict(prop='C05', name='value-of-triggered-not-processed-leaves', edits=[(EVENTS,
         "            elif event.callbacks is None:\n                value.events.append(event)",
         "            elif event.triggered:\n                value.events.append(event)")]),
    dict(prop='C05', name='failed-operand-not-defused', edits=[(EVENTS,
         "            event._defused = True\n            self.fail(event._value)",
         "            self.fail(event._value)")]),
    dict(prop='C05', name='check-not-detached-value-grows', edits=[(EVENTS,
         "        self._remove_check_callbacks()\n        if event._ok:\n            self._value = ConditionValue()\n            self._populate_value(self._value)",
         "        self._remove_check_callbacks()\n        if event._ok:\n            self._value = ConditionValue()\n            self._populate_value(self._value)\n            for e in self._events:\n                if e.callbacks is not None and not isinstance(e, Condition):\n                    e.callbacks.append(lambda ev, v=self._value: v.events.append(ev))")]),
    dict(prop='C05', name='preprocessed-operands-ignored-after-first', edits=[(EVENTS,
         "            if event.callbacks is None:\n                self._check(event)",
         "            if event.callbacks is None and self._count == 0:\n                self._check(event)")]),
    dict(prop='C05', name='mixed-env-check-skipped-for-anyof', edits=[(EVENTS,
         "            if self.env != event.env:", "            if self.env != event.env and evaluate is not Condition.any_events:")]),
    dict(prop='C05', name='awaited-nested-condition-detached', edits=[(EVENTS,
         "            if isinstance(event, Condition) and not event._is_watched():",
         "            if isinstance(event, Condition):")]),
    dict(prop='C05', name='watched-test-counts-processes-only', edits=[(EVENTS,
         "        return any(cb != self._build_value for cb in self.callbacks or ())",
         "        return any(getattr(cb, '__name__', '') == '_resume' for cb in self.callbacks or ())")]),
    dict(prop='C05', name='value-order-sorted-by-completion', edits=[(EVENTS,
         "            self._populate_value(self._value)\n",
         "            self._populate_value(self._value)\n            self._value.events.sort(key=lambda e: getattr(e, '_delay', 0))\n")]),
]

MUTANTS += [
    # ---- C03
    dict(prop='C03', name='until-sentinel-normal', edits=[(CORE,
         "heappush(self._queue, (at, URGENT, next(self._eid), until))",
         "heappush(self._queue, (at, NORMAL, next(self._eid), until))")]),
    dict(prop='C03', name='sentinel-by-delay-again', edits=[(CORE,
         "heappush(self._queue, (at, URGENT, next(self._eid), until))",
         "self.schedule(until, URGENT, at - self.now)")]),
    dict(prop='C03', name='stop-raised-inside-callback-loop-again', edits=[(CORE,
         "            except StopSimulation as exc:\n",
         "            except StopSimulation as exc:\n                raise\n")]),
    dict(prop='C03', name='until-event-value-lost-when-falsy', edits=[(CORE,
         "            return exc.args[0]  # == until.value", "            return exc.args[0] or None")]),
    dict(prop='C03', name='processed-until-event-runs-on', edits=[(CORE,
         "            elif until.callbacks is None:\n                # Until event has already been processed.\n                return until.value",
         "            elif until.callbacks is None:\n                # Until event has already been processed.\n                if self._queue: self.step()\n                return until.value")]),
    dict(prop='C03', name='set-iteration-in-step', edits=[(CORE,
         "        for callback in callbacks:\n            try:",
         "        for callback in (callbacks if len(callbacks) < 3 else sorted(callbacks, key=lambda c: hash(str(getattr(c, '__self__', c))))):\n            try:")]),
]

RES = 'onl/sim/resources/resource.py'
BASE = 'onl/sim/resources/base.py'
MUTANTS += [
    # ---- C06
    dict(prop='C06', name='preempt-on-equal-key', edits=[(RES,
         "            if preempt.key > event.key:", "            if preempt.key >= event.key:")]),
    dict(prop='C06', name='sort-key-without-time', edits=[(RES,
         "        super().sort(key=lambda e: e.key)", "        super().sort(key=lambda e: (e.key[0], e.key[2]))")]),
    dict(prop='C06', name='release-does-not-wake-queue', edits=[(BASE,
         "        resource.get_queue.append(self)\n        self.callbacks.append(resource._trigger_put)",
         "        resource.get_queue.append(self)\n        if len(resource.put_queue) < 2:\n            self.callbacks.append(resource._trigger_put)")]),
    dict(prop='C06', name='capacity-off-by-one-when-capacity-3', edits=[(RES,
         "        if len(self._users) < self.capacity:", "        if len(self._users) < self.capacity + (self.capacity > 2):")]),
    dict(prop='C06', name='preempted-usage-since-of-preemptor', edits=[(RES,
         "                        usage_since=preempt.usage_since,", "                        usage_since=event.time,")]),
    dict(prop='C06', name='lifo-queue-for-plain-resource', edits=[(BASE,
         "        resource.put_queue.append(self)\n        self.callbacks.append(resource._trigger_get)",
         "        (resource.put_queue.insert(0, self) if type(resource).__name__ == 'Resource' and len(resource.put_queue) > 1 else resource.put_queue.append(self))\n        self.callbacks.append(resource._trigger_get)")]),
    dict(prop='C06', name='cancel-removes-wrong-request', edits=[(BASE,
         "        if not self.triggered:\n            self.resource.put_queue.remove(self)",
         "        if not self.triggered:\n            self.resource.put_queue.pop(self.resource.put_queue.index(self) if len(self.resource.put_queue) < 3 else 0)")]),
]

CONT = 'onl/sim/resources/container.py'
STORE = 'onl/sim/resources/store.py'
MUTANTS += [
    # ---- C07
    dict(prop='C07', name='container-put-strict-greater', edits=[(CONT,
         "        if self._level + event.amount <= self._capacity:", "        if self._level + event.amount < self._capacity:")]),
    dict(prop='C07', name='container-get-strict-greater', edits=[(CONT,
         "        if self._level >= event.amount:", "        if self._level > event.amount:")]),
    dict(prop='C07', name='store-get-pops-last-when-3plus', edits=[(STORE,
         "            event.succeed(self.items.pop(0))", "            event.succeed(self.items.pop(0 if len(self.items) < 3 else -1))")]),
    dict(prop='C07', name='get-does-not-wake-puts', edits=[(BASE,
         "        resource.get_queue.append(self)\n        self.callbacks.append(resource._trigger_put)",
         "        resource.get_queue.append(self)\n        if not resource.put_queue:\n            self.callbacks.append(resource._trigger_put)")]),
    dict(prop='C07', name='cancel-does-not-rescan-again', edits=[(BASE,
         "            self.resource._trigger_get(None)\n", "            pass\n")]),
    dict(prop='C07', name='filterstore-blocks-scan-on-mismatch', edits=[(STORE,
         "                event.succeed(item)\n                break\n        return True",
         "                event.succeed(item)\n                break\n        return event.triggered or len(self.items) < 2")]),
    dict(prop='C07', name='trigger-scan-continues-past-blocked-head', edits=[(BASE,
         "            if not proceed:\n                break\n\n    def _do_get",
         "            if not proceed and len(self.put_queue) < 3:\n                break\n\n    def _do_get")]),
    dict(prop='C07', name='store-capacity-off-by-one', edits=[(STORE,
         "    def _do_put(self, event: StorePut) -> bool:\n        if len(self.items) < self._capacity:\n            self.items.append(event.item)",
         "    def _do_put(self, event: StorePut) -> bool:\n        if len(self.items) <= self._capacity - (self._capacity < 3):\n            self.items.append(event.item)")]),
]

PORT = 'onl/netdev/port.py'
REDP = 'onl/netdev/red_port.py'
PMON = 'onl/netdev/port_monitor.py'
MUTANTS += [
    # ---- C09
    dict(prop='C09', name='byte-limit-ge', edits=[(PORT, "self.limit_bytes and byte_count > self.qlimit", "self.limit_bytes and byte_count >= self.qlimit")]),
    dict(prop='C09', name='packet-limit-gt', edits=[(PORT, "len(self.store.items) >= self.qlimit - 1", "len(self.store.items) > self.qlimit - 1")]),
    dict(prop='C09', name='packet-limit-no-reserved-place', edits=[(PORT, "len(self.store.items) >= self.qlimit - 1", "len(self.store.items) >= self.qlimit")]),
    dict(prop='C09', name='byte-size-released-at-transmission-start', edits=[(PORT,
         "            if self.rate > 0:\n                yield env.timeout(packet.size * 8 / self.rate)\n            self.byte_size -= packet.size\n",
         "            self.byte_size -= packet.size\n            if self.rate > 0:\n                yield env.timeout(packet.size * 8 / self.rate)\n")]),
    dict(prop='C09', name='drop-counter-not-incremented-in-byte-mode', edits=[(PORT,
         "            self.packets_dropped += 1\n            if self.debug:\n                print(\n                    f\"Packet dropped",
         "            self.packets_dropped += 0 if self.limit_bytes and self.packets_dropped > 1 else 1\n            if self.debug:\n                print(\n                    f\"Packet dropped")]),
    dict(prop='C09', name='tx-time-uses-1000-bits-per-byte-typo', edits=[(PORT, "packet.size * 8 / self.rate", "(packet.size * 8 if packet.size != 1000 else 8192) / self.rate")]),
    dict(prop='C09', name='stamp-with-packet-creation-time', edits=[(PORT, "packet.perhop_time[self.element_id] = self.env.now", "packet.perhop_time[self.element_id] = packet.time")]),
    dict(prop='C09', name='red-min-max-swapped', edits=[(REDP, "        elif self.average_queue_size >= self.min_threshold:", "        elif self.average_queue_size > self.min_threshold * 1.5:")]),
    dict(prop='C09', name='red-probability-inverted', edits=[(REDP, "            if rand <= prob:", "            if rand >= prob:")]),
    dict(prop='C09', name='red-qlimit-gt', edits=[(REDP, "        if self.qlimit is not None and self.average_queue_size >= self.qlimit:", "        if self.qlimit is not None and self.average_queue_size > self.qlimit + 1:")]),
    dict(prop='C09', name='monitor-excluded-forgets-busy', edits=[(PMON, "self.port.byte_size - self.port.busy_packet_size", "self.port.byte_size - self.port.busy_packet_size * self.port.busy * (len(self.port.store.items) > 0)")]),
]

WIRE = 'onl/netdev/wire.py'
TB = 'onl/netdev/token_bucket.py'
TRTB = 'onl/netdev/two_level_token_bucket.py'
MUTANTS += [
    # ---- C10
    dict(prop='C10', name='queued-gt-delay-inverted', edits=[(WIRE, "                if queued_time < delay:", "                if queued_time > delay:")]),
    dict(prop='C10', name='delay-drawn-before-loss-test', edits=[(WIRE,
         "            if not self.loss_rate or random.uniform(0, 1) >= self.loss_rate:\n                # The amount of time for this packet to stay in my store\n                queued_time = self.env.now - entered\n                delay = self.delay_dist()",
         "            delay = self.delay_dist()\n            if not self.loss_rate or random.uniform(0, 1) >= self.loss_rate:\n                # The amount of time for this packet to stay in my store\n                queued_time = self.env.now - entered")]),
    dict(prop='C10', name='loss-draw-gt', edits=[(WIRE, "random.uniform(0, 1) >= self.loss_rate", "random.uniform(0, 1) > self.loss_rate * 1.2")]),
    dict(prop='C10', name='cable-wiring-crossed', edits=[(WIRE, "        self.wire1.out = dev2\n        dev2.out = self.wire2\n        self.wire2.out = dev1",
         "        self.wire1.out = dev1\n        dev2.out = self.wire2\n        self.wire2.out = dev2")]),
    dict(prop='C10', name='full-delay-after-queueing', edits=[(WIRE, "                    yield env.timeout(delay - queued_time)", "                    yield env.timeout(delay if queued_time > 0 else delay - queued_time)")]),
    dict(prop='C10', name='lost-packet-still-waits', edits=[(WIRE, "            else:\n                if self.debug:\n                    print(\n                        f\"Dropped on wire",
         "            else:\n                yield env.timeout(self.delay_dist())\n                if self.debug:\n                    print(\n                        f\"Dropped on wire")]),
    # ---- C11
    dict(prop='C11', name='tb-forgot-div-8', edits=[(TB, "self.current_bucket + self.rate * (now - self.update_time) / 8.0,", "self.current_bucket + self.rate * (now - self.update_time),")]),
    dict(prop='C11', name='tb-cap-omitted', edits=[(TB, "            self.current_bucket = min(\n                self.bucket_size,\n                self.current_bucket + self.rate * (now - self.update_time) / 8.0,\n            )",
         "            self.current_bucket = self.current_bucket + self.rate * (now - self.update_time) / 8.0")]),
    dict(prop='C11', name='tb-update-time-not-refreshed-after-wait', edits=[(TB, "                    self.rate * (env.now - self.update_time) / 8.0 - packet.size\n                )\n                self.update_time = env.now", "                    self.rate * (env.now - self.update_time) / 8.0 - packet.size\n                )")]),
    dict(prop='C11', name='tb-peak-spacing-skipped-for-small', edits=[(TB, "            if self.peak:", "            if self.peak and packet.size > 100:")]),
    dict(prop='C11', name='trtb-colours-swapped', edits=[(TRTB, "                    self.current_bucket_peak -= packet.size\n                    self.current_bucket_commit = 0.0\n                    packet.color = \"yellow\"", "                    self.current_bucket_peak -= packet.size\n                    self.current_bucket_commit = 0.0\n                    packet.color = \"green\"")]),
    dict(prop='C11', name='trtb-commit-not-debited-for-green', edits=[(TRTB, "                    self.current_bucket_commit -= packet.size\n                    self.current_bucket_peak -= packet.size", "                    self.current_bucket_peak -= packet.size")]),
    dict(prop='C11', name='trtb-red-not-marked', edits=[(TRTB, "                    packet.color = \"red\"", "                    packet.color = \"yellow\"")]),
    dict(prop='C11', name='trtb-shapes-against-cir-when-pir-set', edits=[(TRTB, "                        (packet.size - self.current_bucket_peak) * 8.0 / self.pir", "                        (packet.size - self.current_bucket_peak) * 8.0 / self.cir")]),
]

SBASE = 'onl/scheduler/base.py'
SPF = 'onl/scheduler/sp.py'
WFQF = 'onl/scheduler/wfq.py'
VCF = 'onl/scheduler/virtual_clock.py'
DRRF = 'onl/scheduler/drr.py'
RRF = 'onl/scheduler/rr.py'
WRRF = 'onl/scheduler/wrr.py'
MONF = 'onl/scheduler/monitor.py'
MUTANTS += [
    # ---- C12
    dict(prop='C12', name='wakeup-token-only-when-nonempty', edits=[(SBASE, "        if self.total_packets == 0:\n            self.packets_available.put(True)", "        if self.total_packets == 1:\n            self.packets_available.put(True)")]),
    dict(prop='C12', name='counters-decremented-before-transmission', edits=[(SBASE,
         "        yield self.env.timeout(packet.size * 8.0 / self.rate)\n        flow_id = packet.flow_id\n        self.queue_count[flow_id] -= 1\n        self.queue_byte_size[flow_id] -= packet.size",
         "        flow_id = packet.flow_id\n        self.queue_count[flow_id] -= 1\n        self.queue_byte_size[flow_id] -= packet.size\n        yield self.env.timeout(packet.size * 8.0 / self.rate)")]),
    dict(prop='C12', name='no-transmission-time-for-small-packets', edits=[(SBASE, "        yield self.env.timeout(packet.size * 8.0 / self.rate)", "        yield self.env.timeout(packet.size * 8.0 / self.rate if packet.size > 64 else 0)")]),
    dict(prop='C12', name='lifo-per-flow-store-in-rr', edits=[(RRF, "                    packet: Packet = yield store.get()", "                    if len(store.items) > 2:\n                        store.items.reverse()\n                    packet: Packet = yield store.get()")]),
    dict(prop='C12', name='byte-counter-uses-fixed-size', edits=[(SBASE, "        self.queue_byte_size[flow_id] += packet.size", "        self.queue_byte_size[flow_id] += min(packet.size, 1500)")]),
    dict(prop='C12', name='monitor-included-adds-again', edits=[(MONF, "                if not self.service_included:", "                if self.service_included and False or not self.service_included and self.scheduler.total_packets > 2:")]),
    dict(prop='C12', name='wfq-class-count-forgets-decrement-when-shared', edits=[(WFQF, "        self.class_count[class_id] -= 1\n", "        self.class_count[class_id] -= 1 if class_id == packet.flow_id else 2\n")]),
    dict(prop='C14', name='wfq-departure-bookkeeping-back-in-run', edits=[(WFQF,
         "            yield env.process(self.send_packet(packet))\n\n    def packet_departed(self, packet: Packet):",
         "            yield env.process(self.send_packet(packet))\n            self._late_departed(packet)\n\n    def _late_departed(self, packet: Packet):")]),
    # ---- C13
    dict(prop='C13', name='sp-ascending-sort', edits=[(SPF, "key=lambda item: item[1], reverse=True)", "key=lambda item: item[1], reverse=False)")]),
    dict(prop='C13', name='sp-no-rescan-again', edits=[(SPF, "                    # rescan from the highest priority after every transmission\n                    break\n", "")]),
    dict(prop='C13', name='sp-rescan-only-when-top-nonempty', edits=[(SPF, "                    # rescan from the highest priority after every transmission\n                    break\n", "                    if self.stores[self.priorities[0][0]].size() > 0:\n                        break\n")]),
    # ---- C14
    dict(prop='C14', name='wfq-skip-stamp-for-first-again', edits=[(WFQF, "            self.update_vtime()\n        self.finish_times[class_id] = max(", "            self.update_vtime()\n        if len(self.active_set) > 0 or True and self.packets_received % 7 != 3:\n          self.finish_times[class_id] = max(")]),
    dict(prop='C14', name='wfq-min-for-max', edits=[(WFQF, "        self.finish_times[class_id] = max(\n            self.finish_times[class_id], self.vtime\n        )", "        self.finish_times[class_id] = min(\n            self.finish_times[class_id], self.vtime\n        )")]),
    dict(prop='C14', name='wfq-weight-sum-over-all-classes', edits=[(WFQF, "            if i in self.active_set:\n                weight_sum += self.weights[i]", "            if True:\n                weight_sum += self.weights[i]")]),
    dict(prop='C14', name='vc-tuple-key-without-tiebreak', edits=[(VCF, "PriorityItem((self.aux_vc[class_id], self.packets_received), packet)", "PriorityItem((self.aux_vc[class_id], -self.packets_received), packet)")]),
    dict(prop='C14', name='vc-stamp-uses-size', edits=[(VCF, "        self.aux_vc[class_id] += self.vticks[class_id]\n", "        self.aux_vc[class_id] += self.vticks[class_id] * (2 if packet.size > 1000 else 1)\n")]),
    # ---- C15
    dict(prop='C15', name='drr-quantum-not-scaled-by-weight', edits=[(DRRF, "self.quantum[class_id] = self.MIN_QUANTUM * weight / min_weight", "self.quantum[class_id] = self.MIN_QUANTUM")]),
    dict(prop='C15', name='drr-deficit-not-reset-on-empty', edits=[(DRRF, "                            if self.class_count[class_id] == 0:\n                                self.deficit[class_id] = 0.0", "                            pass")]),
    dict(prop='C15', name='drr-deficit-not-debited-for-small', edits=[(DRRF, "                            self.deficit[class_id] -= packet.size", "                            self.deficit[class_id] -= packet.size if packet.size > 200 else 0")]),
    dict(prop='C15', name='wrr-weight-plus-one', edits=[(WRRF, "                for _ in range(weight):", "                for _ in range(weight + 1):")]),
    dict(prop='C15', name='rr-reversed-order', edits=[(RRF, "            for flow_id in self.flows:", "            for flow_id in reversed(self.flows):")]),
    dict(prop='C15', name='rr-two-packets-per-visit-when-long-queue', edits=[(RRF, "                    yield env.process(self.send_packet(packet))", "                    yield env.process(self.send_packet(packet))\n                    if self.queue_count[flow_id] > 3:\n                        packet = yield store.get()\n                        yield env.process(self.send_packet(packet))")]),
    dict(prop='C15', name='drr-sends-unaffordable-head', edits=[(DRRF, "                        if packet.size <= self.deficit[class_id]:\n                            yield env.process", "                        if packet.size <= self.deficit[class_id] + 100:\n                            yield env.process")]),
]

TIMER = 'onl/utils/timer.py'
MUTANTS += [
    # ---- C19
    dict(prop='C19', name='restart-forgets-to-interrupt-sleeper', edits=[(TIMER, "            self.proc.interrupt(\"restart timer\")\n", "            pass\n")]),
    dict(prop='C19', name='stop-does-not-set-flag', edits=[(TIMER, "        self.stopped = True\n        self.expire_time = self.env.now", "        self.expire_time = self.env.now")]),
    dict(prop='C19', name='auto-restart-rearms-from-start-time', edits=[(TIMER, "                self.expire_time = env.now + self.timeout\n", "                self.expire_time = self.start_time + 2 * self.timeout\n")]),
    dict(prop='C19', name='args-passed-as-one-tuple', edits=[(TIMER, "                self.timeout_callback(*self.args, **self.kwargs)", "                self.timeout_callback(self.args, **self.kwargs) if len(self.args) > 1 else self.timeout_callback(*self.args, **self.kwargs)")]),
    dict(prop='C19', name='restart-keeps-old-period-for-auto', edits=[(TIMER, "        self.start_time = self.env.now\n        self.timeout = timeout\n", "        self.start_time = self.env.now\n        self.timeout = timeout if not self.auto_restart else self.timeout\n")]),
    dict(prop='C19', name='restart-from-callback-interrupts-again', edits=[(TIMER, "        if self.env.active_process is self.proc:\n", "        if self.env.active_process is self.proc and self.auto_restart:\n")]),
    dict(prop='C19', name='stop-ignored-at-expiry-instant', edits=[(TIMER, "                if self.stopped:\n                    return\n                armed = self._armed", "                if self.stopped and not (self.expire_time == env.now and self.start_time + self.timeout == env.now):\n                    return\n                armed = self._armed")]),
    dict(prop='C19', name='restart-of-dead-timer-raises-again', edits=[(TIMER, "        if self.proc.is_alive:", "        if not self.proc.processed:")]),
    dict(prop='C19', name='kwargs-dropped', edits=[(TIMER, "self.timeout_callback(*self.args, **self.kwargs)", "self.timeout_callback(*self.args)")]),
]

DGEN = 'onl/packet/dist_generator.py'
SINK = 'onl/packet/sink.py'
DEMUX = 'onl/netdev/demux.py'
SPLIT = 'onl/netdev/splitter.py'
MUTANTS += [
    # ---- C08
    dict(prop='C08', name='port-forwards-twice-when-backlogged', edits=[(PORT, "            if self.out:\n                self.out.put(packet)\n", "            if self.out:\n                self.out.put(packet)\n                if len(self.store.items) > 6:\n                    self.out.put(packet)\n")]),
    dict(prop='C08', name='wire-forwards-a-copy', edits=[(WIRE, "                self.out.put(packet)\n", "                import copy as _c\n                self.out.put(_c.copy(packet) if packet.size > 1000 else packet)\n")]),
    dict(prop='C08', name='scheduler-loses-wakeup-token', edits=[(SBASE, "        if self.total_packets == 0:\n            self.packets_available.put(True)", "        if self.total_packets == 0 and self.packets_received % 5 != 4:\n            self.packets_available.put(True)")]),
    dict(prop='C08', name='sink-counts-bytes-of-previous-packet', edits=[(SINK, "        self.bytes_received[rec_index] += packet.size", "        self.bytes_received[rec_index] += packet.size if self.packets_received[rec_index] != 3 else 0")]),
    dict(prop='C08', name='generator-id-off-by-one-after-10', edits=[(DGEN, "                self.packets_send,\n", "                self.packets_send + (self.packets_send > 10),\n")]),
    dict(prop='C08', name='generator-size-drawn-before-wait', edits=[(DGEN, "            yield env.timeout(self.arrival_dist())\n            self.packets_send += 1", "            _gap = self.arrival_dist()\n            yield env.timeout(_gap * (1.0 if self.packets_send < 7 else 1.5))\n            self.packets_send += 1")]),
    dict(prop='C08', name='tb-rewrites-packet-time', edits=[(TB, "            self.out.put(packet)\n\n            self.packets_sent += 1", "            if packet.size > self.bucket_size:\n                packet.time = env.now\n            self.out.put(packet)\n\n            self.packets_sent += 1")]),
    dict(prop='C18', name='flowdemux-default-consulted-first', edits=[(DEMUX, "        if 0 <= flow_id < len(self.outs):\n            self.outs[flow_id].put(packet)", "        if 0 <= flow_id < len(self.outs) and not (self.default_out and flow_id == len(self.outs) - 1):\n            self.outs[flow_id].put(packet)")]),
    dict(prop='C08', name='sink-interarrival-uses-first-arrival', edits=[(SINK, "self.arrivals[rec_index][-1] = now - self.last_arrival[rec_index]", "self.arrivals[rec_index][-1] = now - (self.last_arrival[rec_index] if len(self.arrivals[rec_index]) < 4 else self.first_arrival[rec_index])")]),
    dict(prop='C08', name='drr-parks-head-and-forgets-it', edits=[(DRRF, "                            assert not class_id in self.head_of_line\n                            self.head_of_line[class_id] = packet", "                            assert not class_id in self.head_of_line\n                            if packet.size < 1000:\n                                self.head_of_line[class_id] = packet")]),
]

HUB = 'onl/netdev/hub.py'
FT = 'onl/topo/fattree.py'
SWITCH = 'onl/netdev/switch.py'
MUTANTS += [
    # ---- C18
    dict(prop='C18', name='fibdemux-default-before-table-for-flow0', edits=[(DEMUX, "        if flow_id in self.ends:", "        if flow_id == 0 and self.default_out:\n            self.default_out.put(packet)\n        elif flow_id in self.ends:")]),
    dict(prop='C18', name='fibdemux-table-before-ends', edits=[(DEMUX, "        if flow_id in self.ends:\n            self.ends[flow_id].put(packet)", "        if flow_id in self.ends and flow_id not in self._fib:\n            self.ends[flow_id].put(packet)")]),
    dict(prop='C18', name='fibdemux-empty-table-rejected-again', edits=[(DEMUX, "        if self._fib is None:", "        if not self._fib:")]),
    dict(prop='C18', name='hub-includes-sender', edits=[(HUB, "            if endpoint.element_id == packet.src:\n                continue", "            if endpoint.element_id == packet.src and idx == 0:\n                continue")]),
    dict(prop='C18', name='hub-bypasses-port-device', edits=[(HUB, "            out = self.outs[idx]\n", "            out = self.outs[idx] if idx % 2 == 0 else self.endpoints[idx]\n")]),
    dict(prop='C18', name='splitter-forwards-same-object-twice', edits=[(SPLIT, "            self.out2.put(duplicate)", "            self.out2.put(packet)")]),
    dict(prop='C18', name='nsplitter-shares-one-copy', edits=[(SPLIT, "        duplicates = [copy(packet) if out else None for out in self.outs[1:]]", "        duplicates = [copy(packet)] * len(self.outs[1:])")]),
    dict(prop='C18', name='fattree-core-agg-index-off', edits=[(FT, "aggr_node = n_core + (core_node // (k // 2)) + (k * pod)", "aggr_node = n_core + (core_node // (k // 2)) + (k * (pod if pod < 3 else pod - 1))")]),
    dict(prop='C18', name='fattree-reverse-entry-at-wrong-node', edits=[(FT, "                    self.topo.nodes[z][\"flow_to_nexthop\"][flow.fid + 10000] = a", "                    self.topo.nodes[z][\"flow_to_nexthop\"][flow.fid + 10000] = a\n                    if len(flow.path) > 5:\n                        self.topo.nodes[z][\"flow_to_port\"][flow.fid + 10000] = 0")]),
    dict(prop='C18', name='fattree-flow-may-loop-to-itself', edits=[(FT, "            src, dst = sample(sorted(self.hosts), 2)", "            src, dst = sample(sorted(self.hosts), 2)\n            if flow_id == 7:\n                dst = src")]),
    dict(prop='C18', name='fattree-any-simple-path', edits=[(FT, "sample(list(nx.all_shortest_paths(self.topo, src, dst)), 1)[0]", "sample(list(nx.all_simple_paths(self.topo, src, dst, cutoff=6)), 1)[0]")]),
    dict(prop='C18', name='fairswitch-egress-port-wired-to-wrong-scheduler', edits=[(SWITCH, "            egress_port.out = scheduler\n", "            egress_port.out = scheduler if port < 2 else self.ports[0]\n")]),
]

TCPG = 'onl/packet/tcp_generator.py'
TCPS = 'onl/packet/tcp_sink.py'
MUTANTS += [
    # ---- C16
    dict(prop='C16', name='sender-fetches-only-when-buffer-used-up', edits=[(TCPG,
         "            while self.next_seq + self.mss > self.send_buffer and (",
         "            while self.next_seq >= self.send_buffer and (")]),
    dict(prop='C16', name='chunk-buffered-whole-past-the-end-of-the-flow', edits=[(TCPG,
         "                    packet_size = min(packet_size, self.flow.size - self.send_buffer)",
         "                    packet_size = packet_size if self.flow.size_dist else min(packet_size, self.flow.size - self.send_buffer)")]),
    dict(prop='C16', name='sink-acks-end-of-last-range', edits=[(TCPS, "            self.next_seq_expected = self.recv_buffer[0][1]\n        else:\n            self.next_seq_expected = 0", "            self.next_seq_expected = self.recv_buffer[-1][1]\n        else:\n            self.next_seq_expected = 0")]),
    dict(prop='C16', name='sink-acks-first-range-even-without-byte-0', edits=[(TCPS, "        if self.recv_buffer[0][0] == 0:", "        if self.recv_buffer[0][0] >= 0:")]),
    dict(prop='C16', name='timer-not-restarted-after-retransmission', edits=[(TCPG, "        self.rto *= 2\n        self.timers[packet_id].restart(self.rto)", "        self.rto *= 2\n        if self.rto < 16:\n            self.timers[packet_id].restart(self.rto)")]),
    dict(prop='C16', name='stale-ack-accepted-again', edits=[(TCPG, "        if ackno < self.last_ack:", "        if ackno < self.last_ack - 1024:")]),
    dict(prop='C16', name='cumulative-ack-stops-one-timer-too-many', edits=[(TCPG, "            for seqno in [s for s in self.timers if s < ackno]:", "            for seqno in [s for s in self.timers if s <= ackno]:")]),
    dict(prop='C16', name='merge-ranges-off-by-one', edits=[(TCPS, "            if merge_stats and start <= merge_stats[-1][1]:", "            if merge_stats and start < merge_stats[-1][1]:")]),
    dict(prop='C16', name='timer-of-every-eighth-segment-never-stopped', edits=[(TCPG, "            for seqno in [s for s in self.timers if s < ackno]:", "            for seqno in [s for s in self.timers if s < ackno and s % 4096 != 3584]:")]),
    # ---- C17
    dict(prop='C17', name='slow-start-strict-less', edits=[(TCPG, "class TCPReno(CongestionControl):\n    def ack_received(self, rtt: float = 0, current_time: float = 0):\n        if self.cwnd <= self.ssthresh:", "class TCPReno(CongestionControl):\n    def ack_received(self, rtt: float = 0, current_time: float = 0):\n        if self.cwnd < self.ssthresh:")]),
    dict(prop='C17', name='halving-without-2mss-floor', edits=[(TCPG, "        self.ssthresh = max(2 * self.mss, self.cwnd / 2)", "        self.ssthresh = self.cwnd / 2")]),
    dict(prop='C17', name='inflation-plus-2mss', edits=[(TCPG, "        self.cwnd = self.ssthresh + 3 * self.mss", "        self.cwnd = self.ssthresh + 2 * self.mss")]),
    dict(prop='C17', name='estimator-gains-swapped', edits=[(TCPG, "            self.rtt_estimate += 0.125 * sample_err\n            self.est_deviation += 0.25 * (abs(sample_err) - self.est_deviation)", "            self.rtt_estimate += 0.25 * sample_err\n            self.est_deviation += 0.125 * (abs(sample_err) - self.est_deviation)")]),
    dict(prop='C17', name='rto-not-doubled', edits=[(TCPG, "        self.rto *= 2\n", "        self.rto *= 1.5\n")]),
    dict(prop='C17', name='send-guard-ignores-window-for-last-byte', edits=[(TCPG, "            if self.next_seq + self.mss <= min(\n                self.send_buffer, self.last_ack + self.congestion_control.cwnd\n            ):", "            if self.next_seq + self.mss <= min(\n                self.send_buffer, self.last_ack + self.congestion_control.cwnd + self.mss - 1\n            ):")]),
    dict(prop='C17', name='deflation-after-any-dupack-again', edits=[(TCPG, "            if self.dupack >= 3:\n                self.congestion_control.dupack_over()", "            if self.dupack >= 2:\n                self.congestion_control.dupack_over()")]),
    dict(prop='C17', name='timeout-halves-instead-of-one-mss', edits=[(TCPG, "        \"\"\"Actions to be taken when a timer expired.\"\"\"\n        self.cwnd = self.mss\n\n    def dupack_over", "        \"\"\"Actions to be taken when a timer expired.\"\"\"\n        self.cwnd = max(self.mss, self.cwnd / 2)\n\n    def dupack_over")]),
    dict(prop='C17', name='cubic-shrinks-in-avoidance', edits=[(TCPG, "            if self.cwnd_cnt > self.cnt:\n                self.cwnd += self.mss", "            if self.cwnd_cnt > self.cnt:\n                self.cwnd += self.mss * 2")]),
    dict(prop='C17', name='fourth-dupack-no-inflation', edits=[(TCPG, "        elif self.dupack > 3:\n            self.congestion_control.more_dupacks_received()", "        elif self.dupack > 4:\n            self.congestion_control.more_dupacks_received()")]),
]

RT = 'onl/sim/rt.py'
MUTANTS += [
    # ---- C20
    dict(prop='C20', name='strict-test-ge', edits=[(RT, "        if self.strict and monotonic() - real_time > self.factor:", "        if self.strict and monotonic() - real_time >= self.factor:")]),
    dict(prop='C20', name='lag-measured-against-now', edits=[(RT, "        real_time = self.real_start + (evt_time - self.env_start) * self.factor\n", "        real_time = self.real_start + (evt_time - self.env_start) * self.factor\n        late_ref = self.real_start + (self.now - self.env_start) * self.factor\n"), (RT, "        if self.strict and monotonic() - real_time > self.factor:", "        if self.strict and monotonic() - late_ref > self.factor * 3:")]),
    dict(prop='C20', name='sleep-once-instead-of-looping', edits=[(RT, "            if delta <= 0:\n                break\n            sleep(delta)", "            if delta <= 0:\n                break\n            sleep(delta)\n            break")]),
    dict(prop='C20', name='nonstrict-raises-when-very-late', edits=[(RT, "        if self.strict and monotonic() - real_time > self.factor:", "        if (self.strict or monotonic() - real_time > 4 * self.factor) and monotonic() - real_time > self.factor:")]),
    dict(prop='C20', name='factor-ignored-for-initial-time', edits=[(RT, "        real_time = self.real_start + (evt_time - self.env_start) * self.factor", "        real_time = self.real_start + evt_time * self.factor - self.env_start")]),
]

MUTANTS += [
    dict(prop='C13', name='sp-aborts-low-priority-transmission', edits=[(SPF,
         "                    yield env.process(self.send_packet(packet))\n",
         "                    tx = env.process(self.send_packet(packet))\n                    top = self.stores[self.priorities[0][0]]\n                    res = yield tx | env.timeout(packet.size * 4.0 / self.rate)\n                    if tx not in res and flow_id != self.priorities[0][0] and top.size() > 0:\n                        tx.interrupt()\n                        self.queue_count[packet.flow_id] -= 1\n                        self.queue_byte_size[packet.flow_id] -= packet.size\n                        self.current_packet = None\n                    elif tx not in res:\n                        yield tx\n")]),
]
MUTANTS.sort(key=lambda m: (m['prop'], m['name']))
