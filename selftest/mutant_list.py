"""Hand-written mutants (DESIGN.md section 4 'Mutants'); seeded sub-agent patches are appended at the end."""
import glob
import json
import os

CORE = 'onl/sim/core.py'
EVENTS = 'onl/sim/events.py'

MUTANTS = [
    # ---- C01
    dict(prop='C01', name='heap-key-without-insertion-counter', edits=[(CORE,
         "(self._now + delay, priority, next(self._eid), event))",
         "(self._now + delay, priority, -next(self._eid), event))")]),
    dict(prop='C01', name='heap-key-without-priority', edits=[(CORE,
         "(self._now + delay, priority, next(self._eid), event))",
         "(self._now + delay, 1, next(self._eid), event))")]),
    dict(prop='C01', name='timeout-scheduled-urgent', edits=[(EVENTS,
         "        env.schedule(self, NORMAL, delay)", "        env.schedule(self, URGENT, delay)")]),
    dict(prop='C01', name='interruption-scheduled-normal', edits=[(EVENTS,
         "        self.process = process\n        self.env.schedule(self, URGENT)",
         "        self.process = process\n        self.env.schedule(self, NORMAL)")]),
    dict(prop='C01', name='delay-plus-epsilon-for-floats', edits=[(CORE,
         "(self._now + delay, priority, next(self._eid), event))",
         "(self._now + delay * (1 + 2.0 ** -52 * (delay > 1.2)), priority, next(self._eid), event))")]),
    dict(prop='C01', name='tiny-negative-delay-accepted', edits=[(EVENTS,
         "        if delay < 0:\n            raise ValueError(f'Negative delay {delay}')",
         "        if delay <= -1e-9:\n            raise ValueError(f'Negative delay {delay}')")]),
    dict(prop='C01', name='until-sentinel-normal', edits=[(CORE,
         "self.schedule(until, URGENT, at - self.now)", "self.schedule(until, NORMAL, at - self.now)")]),
]


def _seeded():
    here = os.path.dirname(os.path.dirname(os.path.abspath(__file__)))
    out = []
    for meta in sorted(glob.glob(os.path.join(here, 'seeded', '*', 'meta.json'))):
        d = os.path.dirname(meta)
        m = json.load(open(meta))
        out.append(dict(prop=m['property'], name='seeded/' + os.path.basename(d),
                        patch=os.path.relpath(os.path.join(d, 'patch.diff'), here)))
    return out


MUTANTS += _seeded()
