"""Hand-written mutants (DESIGN.md section 4 'Mutants'); seeded sub-agent patches are appended at the end."""
import glob
import json
import os

CORE = 'onl/sim/core.py'
EVENTS = 'onl/sim/events.py'

MUTANTS = [
    # ---- C01
    dict(prop='C01', name='heap-key-without-insertion-counter', edits=[(CORE,
         "(self._now + delay, priority, next(self._eid), event))",
         "(self._now + delay, priority, -next(self._eid), event))")]),
    dict(prop='C01', name='heap-key-without-priority', edits=[(CORE,
         "(self._now + delay, priority, next(self._eid), event))",
         "(self._now + delay, 1, next(self._eid), event))")]),
    dict(prop='C01', name='timeout-scheduled-urgent', edits=[(EVENTS,
         "        env.schedule(self, NORMAL, delay)", "        env.schedule(self, URGENT, delay)")]),
    dict(prop='C01', name='interruption-scheduled-normal', edits=[(EVENTS,
         "        self.process = process\n        self.env.schedule(self, URGENT)",
         "        self.process = process\n        self.env.schedule(self, NORMAL)")]),
    dict(prop='C01', name='delay-plus-epsilon-for-floats', edits=[(CORE,
         "(self._now + delay, priority, next(self._eid), event))",
         "(self._now + delay * (1 + 2.0 ** -52 * (delay > 1.2)), priority, next(self._eid), event))")]),
    dict(prop='C01', name='tiny-negative-delay-accepted', edits=[(EVENTS,
         "        if delay < 0:\n            raise ValueError(f'Negative delay {delay}')",
         "        if delay <= -1e-9:\n            raise ValueError(f'Negative delay {delay}')")]),
    dict(prop='C01', name='until-sentinel-normal', edits=[(CORE,
         "self.schedule(until, URGENT, at - self.now)", "self.schedule(until, NORMAL, at - self.now)")]),
]


def _seeded():
    here = os.path.dirname(os.path.dirname(os.path.abspath(__file__)))
    out = []
    for meta in sorted(glob.glob(os.path.join(here, 'seeded', '*', 'meta.json'))):
        d = os.path.dirname(meta)
        m = json.load(open(meta))
        out.append(dict(prop=m['property'], name='seeded/' + os.path.basename(d),
                        patch=os.path.relpath(os.path.join(d, 'patch.diff'), here)))
    return out


MUTANTS += _seeded()

MUTANTS += [
    # ---- C02
    dict(prop='C02', name='skip-last-callback-when-3plus', edits=[(CORE,
         "        for callback in callbacks:\n            callback(event)",
         "        for callback in (callbacks[:-1] if len(callbacks) > 3 else callbacks):\n            callback(event)")]),
    dict(prop='C02', name='callbacks-reversed', edits=[(CORE,
         "        for callback in callbacks:\n            callback(event)",
         "        for callback in reversed(callbacks):\n            callback(event)")]),
    dict(prop='C02', name='resume-does-not-defuse', edits=[(EVENTS,
         "                    event._defused = True\n\n                    # Create an exclusive copy",
         "                    pass\n\n                    # Create an exclusive copy")]),
    dict(prop='C02', name='swallow-undefused-failures-of-plain-events', edits=[(CORE,
         "        if not event._ok and not hasattr(event, '_defused'):",
         "        if not event._ok and not hasattr(event, '_defused') and hasattr(event, '_generator'):")]),
    dict(prop='C02', name='process-exception-lost-ok-true', edits=[(EVENTS,
         "                event = None  # type: ignore\n                self._ok = False",
         "                event = None  # type: ignore\n                self._ok = isinstance(e, KeyError)")]),
    dict(prop='C02', name='exception-copy-drops-args', edits=[(EVENTS,
         "                    exc = type(event._value)(*event._value.args)\n                    exc.__cause__ = event._value\n                    event = self._generator.throw(exc)",
         "                    exc = type(event._value)(*event._value.args[:1])\n                    exc.__cause__ = event._value\n                    event = self._generator.throw(exc)")]),
    dict(prop='C02', name='return-value-none-when-falsy', edits=[(EVENTS,
         "                self._value = e.args[0] if len(e.args) else None",
         "                self._value = (e.args[0] or None) if len(e.args) else None")]),
]
MUTANTS.sort(key=lambda m: (m['prop'], m['name']))
