"""Hand-written mutants (DESIGN.md section 4 'Mutants'); seeded sub-agent patches are appended at the end."""
import glob
import json
import os

CORE = 'onl/sim/core.py'
EVENTS = 'onl/sim/events.py'

MUTANTS = [
    # ---- C01
    dict(prop='C01', name='heap-key-without-insertion-counter', edits=[(CORE,
         "(self._now + delay, priority, next(self._eid), event))",
         "(self._now + delay, priority, -next(self._eid), event))")]),
    dict(prop='C01', name='heap-key-without-priority', edits=[(CORE,
         "(self._now + delay, priority, next(self._eid), event))",
         "(self._now + delay, 1, next(self._eid), event))")]),
    dict(prop='C01', name='timeout-scheduled-urgent', edits=[(EVENTS,
         "        env.schedule(self, NORMAL, delay)", "        env.schedule(self, URGENT, delay)")]),
    dict(prop='C01', name='interruption-scheduled-normal', edits=[(EVENTS,
         "        self.process = process\n        self.env.schedule(self, URGENT)",
         "        self.process = process\n        self.env.schedule(self, NORMAL)")]),
    dict(prop='C01', name='delay-plus-epsilon-for-floats', edits=[(CORE,
         "(self._now + delay, priority, next(self._eid), event))",
         "(self._now + delay * (1 + 2.0 ** -52 * (delay > 1.2)), priority, next(self._eid), event))")]),
    dict(prop='C01', name='tiny-negative-delay-accepted', edits=[(EVENTS,
         "        if delay < 0:\n            raise ValueError(f'Negative delay {delay}')",
         "        if delay <= -1e-9:\n            raise ValueError(f'Negative delay {delay}')")]),
    dict(prop='C01', name='until-sentinel-normal', edits=[(CORE,
         "heappush(self._queue, (at, URGENT, next(self._eid), until))",
         "heappush(self._queue, (at, NORMAL, next(self._eid), until))")]),
]


def _seeded():
    here = os.path.dirname(os.path.dirname(os.path.abspath(__file__)))
    out = []
    for meta in sorted(glob.glob(os.path.join(here, 'seeded', '*', 'meta.json'))):
        d = os.path.dirname(meta)
        m = json.load(open(meta))
        out.append(dict(prop=m['property'], name='seeded/' + os.path.basename(d),
                        patch=os.path.relpath(os.path.join(d, 'patch.diff'), here)))
    return out


MUTANTS += _seeded()

MUTANTS += [
    # ---- C02
    dict(prop='C02', name='skip-last-callback-when-3plus', edits=[(CORE,
         "        for callback in callbacks:\n            callback(event)",
         "        for callback in (callbacks[:-1] if len(callbacks) > 3 else callbacks):\n            callback(event)")]),
    dict(prop='C02', name='callbacks-reversed', edits=[(CORE,
         "        for callback in callbacks:\n            callback(event)",
         "        for callback in reversed(callbacks):\n            callback(event)")]),
    dict(prop='C02', name='resume-does-not-defuse', edits=[(EVENTS,
         "                    event._defused = True\n\n                    # Create an exclusive copy",
         "                    pass\n\n                    # Create an exclusive copy")]),
    dict(prop='C02', name='swallow-undefused-failures-of-plain-events', edits=[(CORE,
         "        if not event._ok and not hasattr(event, '_defused'):",
         "        if not event._ok and not hasattr(event, '_defused') and hasattr(event, '_generator'):")]),
    dict(prop='C02', name='process-exception-lost-ok-true', edits=[(EVENTS,
         "                event = None  # type: ignore\n                self._ok = False",
         "                event = None  # type: ignore\n                self._ok = isinstance(e, KeyError)")]),
    dict(prop='C02', name='exception-copy-drops-args', edits=[(EVENTS,
         "                    exc = type(event._value)(*event._value.args)\n                    exc.__cause__ = event._value\n                    event = self._generator.throw(exc)",
         "                    exc = type(event._value)(*event._value.args[:1])\n                    exc.__cause__ = event._value\n                    event = self._generator.throw(exc)")]),
    dict(prop='C02', name='return-value-none-when-falsy', edits=[(EVENTS,
         "                self._value = e.args[0] if len(e.args) else None",
         "                self._value = (e.args[0] or None) if len(e.args) else None")]),
]

MUTANTS += [
    # ---- C04
    dict(prop='C04', name='victim-not-detached-from-target', edits=[(EVENTS,
         "        self.process._target.callbacks.remove(self.process._resume)\n",
         "        pass\n")]),
    dict(prop='C04', name='deliver-to-dead-victims', edits=[(EVENTS,
         "        if self.process.triggered:\n            return\n",
         "")]),
    dict(prop='C04', name='initialize-scheduled-normal', edits=[(EVENTS,
         "        self._ok = True\n        env.schedule(self, URGENT)",
         "        self._ok = True\n        env.schedule(self, NORMAL)")]),
    dict(prop='C04', name='no-self-interrupt-check', edits=[(EVENTS,
         "        if process is self.env.active_process:\n            raise RuntimeError('A process is not allowed to interrupt itself.')\n",
         "")]),
    dict(prop='C04', name='interrupt-cause-dropped-when-falsy', edits=[(EVENTS,
         "        self._value = Interrupt(cause)", "        self._value = Interrupt(cause or None)")]),
    dict(prop='C04', name='second-pending-interrupt-dropped', edits=[(EVENTS,
         "        self.process = process\n        self.env.schedule(self, URGENT)",
         "        self.process = process\n        if getattr(process, '_intr_at', None) == (self.env.now, self.env.active_process):\n            return\n        process._intr_at = (self.env.now, self.env.active_process)\n        self.env.schedule(self, URGENT)")]),
]

MUTANTS += [
    # ---- C05
    dict(prop='C05', name='all-events-off-by-one', edits=[(EVENTS,
         "        return len(events) == count", "        return len(events) <= count + (len(events) > 3)")]),
    dict(prop='C05', name='any-events-needs-two', edits=[(EVENTS,
         "        return count > 0 or len(events) == 0", "        return count > (len(events) > 2) or len(events) == 0")]),
    dict(prop='C05', name='value-of-triggered-not-processed-leaves', edits=[(EVENTS,
         "            elif event.callbacks is None:\n                value.events.append(event)",
         "            elif event.triggered:\n                value.events.append(event)")]),
    dict(prop='C05', name='failed-operand-not-defused', edits=[(EVENTS,
         "            event._defused = True\n            self.fail(event._value)",
         "            self.fail(event._value)")]),
    dict(prop='C05', name='check-not-detached-value-grows', edits=[(EVENTS,
         "        self._remove_check_callbacks()\n        if event._ok:\n            self._value = ConditionValue()\n            self._populate_value(self._value)",
         "        self._remove_check_callbacks()\n        if event._ok:\n            self._value = ConditionValue()\n            self._populate_value(self._value)\n            for e in self._events:\n                if e.callbacks is not None and not isinstance(e, Condition):\n                    e.callbacks.append(lambda ev, v=self._value: v.events.append(ev))")]),
    dict(prop='C05', name='preprocessed-operands-ignored-after-first', edits=[(EVENTS,
         "            if event.callbacks is None:\n                self._check(event)",
         "            if event.callbacks is None and self._count == 0:\n                self._check(event)")]),
    dict(prop='C05', name='mixed-env-check-skipped-for-anyof', edits=[(EVENTS,
         "            if self.env != event.env:", "            if self.env != event.env and evaluate is not Condition.any_events:")]),
    dict(prop='C05', name='value-order-sorted-by-completion', edits=[(EVENTS,
         "            self._populate_value(self._value)\n",
         "            self._populate_value(self._value)\n            self._value.events.sort(key=lambda e: getattr(e, '_delay', 0))\n")]),
]

MUTANTS += [
    # ---- C03
    dict(prop='C03', name='until-sentinel-normal', edits=[(CORE,
         "heappush(self._queue, (at, URGENT, next(self._eid), until))",
         "heappush(self._queue, (at, NORMAL, next(self._eid), until))")]),
    dict(prop='C03', name='sentinel-by-delay-again', edits=[(CORE,
         "heappush(self._queue, (at, URGENT, next(self._eid), until))",
         "self.schedule(until, URGENT, at - self.now)")]),
    dict(prop='C03', name='stop-raised-inside-callback-loop-again', edits=[(CORE,
         "            except StopSimulation as exc:\n",
         "            except StopSimulation as exc:\n                raise\n")]),
    dict(prop='C03', name='until-event-value-lost-when-falsy', edits=[(CORE,
         "            return exc.args[0]  # == until.value", "            return exc.args[0] or None")]),
    dict(prop='C03', name='processed-until-event-runs-on', edits=[(CORE,
         "            elif until.callbacks is None:\n                # Until event has already been processed.\n                return until.value",
         "            elif until.callbacks is None:\n                # Until event has already been processed.\n                if self._queue: self.step()\n                return until.value")]),
    dict(prop='C03', name='set-iteration-in-step', edits=[(CORE,
         "        for callback in callbacks:\n            try:",
         "        for callback in (callbacks if len(callbacks) < 3 else sorted(callbacks, key=lambda c: hash(str(getattr(c, '__self__', c))))):\n            try:")]),
]
MUTANTS.sort(key=lambda m: (m['prop'], m['name']))
